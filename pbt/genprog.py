"""`classic` profile: typed-by-construction generator for the documented classical core, a renderer,
and helpers shared by C07 / C09 / C10 / C12 / C18.

Programs are JSON-serialisable dict trees (so that a shrunk case is its own replay file).

Expressions  {"k": kind, "t": static type, ...}
  lit(v) var(name) bin(op,l,r) un(op,e) cast(to,e) call(f,args) idx(name,i) post(op,name) arrlit(elems) assign(name,e)
Statements   {"k": kind, ...}
  decl(t,name,init,final,size) assign(name,e) aset(name,i,e) if(c,then,else) tern(c,then,else) while(c,body)
  for(init,c,inc,body) expr(e) echo(e) ret(e) block(body)
Functions    {"name","params":[[type,name]..],"ret":type,"body":[...],"pure":bool}
"""
from hypothesis import strategies as st

KEYWORDS = set("null int long float string char qubit bit boolean true false void function return if else for while "
               "measure final reset default quantum tracked shots class public private protected static extends abstract "
               "virtual override super this import package new constructor destructor destroy echo".split())
GATES = set("h x y z rx ry rz cx".split())

# small shared pool so that names collide across functions (never a keyword, `echo` or a gate name)
NAME_POOL = ["a", "b", "c", "d", "e", "i", "j", "k", "m", "n", "p", "q", "r", "s", "t", "u", "v", "w", "acc", "tmp",
             "val", "cnt", "lim", "res", "idx", "arr", "flag", "sum"]
NAME_POOL = [n for n in NAME_POOL if n not in KEYWORDS and n not in GATES]

SCALARS = ["int", "long", "float", "bit", "boolean", "string"]
ARRAYS = ["int[]", "long[]", "float[]", "bit[]", "boolean[]", "string[]"]
NUMERIC = ["int", "long", "float"]


def elem_type(t):
    return t[:-2]


def promote(a, b):
    if "float" in (a, b):
        return "float"
    if "long" in (a, b):
        return "long"
    return "int"


# ------------------------------------------------------------------ rendering

PREC = {"||": 1, "&&": 2, "|": 3, "^": 4, "&": 5, "==": 6, "!=": 6, "<": 7, ">": 7, "<=": 7, ">=": 7, "+": 8, "-": 8,
        "*": 9, "/": 9, "%": 9}


EXTRA_RENDER = {}  # filled by genclass (object-level expression kinds)
EXTRA_STMT_RENDER = {}


def render_lit(t, v):
    if t == "int":
        return str(v)
    if t == "long":
        return f"{v}L"
    if t == "float":
        s = repr(float(v))
        if "e" in s or "inf" in s or "nan" in s:
            s = "%.6f" % float(v)
        if "." not in s:
            s += ".0"
        return s + "f"
    if t == "bit":
        return f"{int(v)}b"
    if t == "boolean":
        return "true" if v else "false"
    if t == "string":
        return '"' + v + '"'
    if t == "char":
        return "'" + v + "'"
    raise ValueError(t)


def rexpr(e, ctx=0):
    """Render with minimal parentheses; negative literals and unary minus always parenthesised as operands."""
    k = e["k"]
    if k == "lit":
        v = e["v"]
        if e["t"] in ("int", "long", "float") and (v < 0 or (e["t"] == "float" and str(float(v)).startswith("-"))):
            s = "-" + render_lit(e["t"], -v)
            return f"({s})" if ctx > 0 else s
        return render_lit(e["t"], v)
    if k == "var":
        return ("this." + e["name"]) if e.get("via_this") else e["name"]
    if k in EXTRA_RENDER:
        return EXTRA_RENDER[k](e, ctx)
    if k == "bin":
        p = PREC[e["op"]]
        s = f"{rexpr(e['l'], p)} {e['op']} {rexpr(e['r'], p + 1)}"
        return f"({s})" if p < ctx else s
    if k == "un":
        s = e["op"] + rexpr(e["e"], 10)
        return f"({s})" if ctx > 9 else s
    if k == "cast":
        s = f"({e['to']}) {rexpr(e['e'], 11)}"
        return f"({s})" if ctx > 9 else s
    if k == "call":
        return f"{e['f']}({', '.join(rexpr(a) for a in e['args'])})"
    if k == "idx":
        return f"{e['name']}[{rexpr(e['i'])}]"
    if k == "post":
        return f"{e['name']}{e['op']}"
    if k == "arrlit":
        return "{" + ", ".join(rexpr(x) for x in e["elems"]) + "}"
    if k == "assign":
        s = f"{e['name']} = {rexpr(e['e'])}"
        return f"({s})"
    raise ValueError(k)


def rtype(t, size=None):
    if t.endswith("[]"):
        return f"{t[:-2]}[{size}]" if size is not None else t
    return t


def rstmt(s, ind, out):
    pad = "    " * ind
    k = s["k"]
    if k == "decl":
        fin = "final " if s.get("final") else ""
        init = f" = {rexpr(s['init'])}" if s.get("init") is not None else ""
        out.append(f"{pad}{fin}{rtype(s['t'], s.get('size'))} {s['name']}{init};")
    elif k == "assign":
        out.append(f"{pad}{s['name']} = {rexpr(s['e'])};")
    elif k == "aset":
        out.append(f"{pad}{s['name']}[{rexpr(s['i'])}] = {rexpr(s['e'])};")
    elif k == "if":
        out.append(f"{pad}if ({rexpr(s['c'])}) {{")
        for x in s["then"]:
            rstmt(x, ind + 1, out)
        if s.get("else") is not None:
            out.append(f"{pad}}} else {{")
            for x in s["else"]:
                rstmt(x, ind + 1, out)
        out.append(f"{pad}}}")
    elif k == "tern":
        a, b = [], []
        rstmt(s["then"], 0, a)
        rstmt(s["else"], 0, b)
        out.append(f"{pad}{rexpr(s['c'], 1)} ? {' '.join(a)} : {' '.join(b)}")
    elif k == "while":
        out.append(f"{pad}while ({rexpr(s['c'])}) {{")
        for x in s["body"]:
            rstmt(x, ind + 1, out)
        out.append(f"{pad}}}")
    elif k == "for":
        init = []
        rstmt(s["init"], 0, init)
        inc = rexpr(s["inc"])
        if s["inc"]["k"] == "assign":
            inc = inc[1:-1]
        out.append(f"{pad}for ({init[0]} {rexpr(s['c'])}; {inc}) {{")
        for x in s["body"]:
            rstmt(x, ind + 1, out)
        out.append(f"{pad}}}")
    elif k == "expr":
        e = s["e"]
        txt = rexpr(e)
        if e["k"] == "assign":
            txt = txt[1:-1]
        out.append(f"{pad}{txt};")
    elif k == "echo":
        out.append(f"{pad}echo({rexpr(s['e'])});")
    elif k == "ret":
        out.append(f"{pad}return {rexpr(s['e'])};" if s.get("e") is not None else f"{pad}return;")
    elif k == "block":
        out.append(f"{pad}{{")
        for x in s["body"]:
            rstmt(x, ind + 1, out)
        out.append(f"{pad}}}")
    elif k in EXTRA_STMT_RENDER:
        EXTRA_STMT_RENDER[k](s, ind, out)
    else:
        raise ValueError(k)


def render_function(f):
    out = []
    ps = ", ".join(f"{t} {n}" for t, n in f["params"])
    out.append(f"function {f['name']}({ps}) -> {f['ret']} {{")
    for s in f["body"]:
        rstmt(s, 1, out)
    out.append("}")
    return "\n".join(out)


def render_program(p, order=None):
    decls = []
    for c in p.get("classes", []):
        decls.append(("class", c["name"], c["src"]))
    for f in p["funcs"]:
        decls.append(("fn", f["name"], render_function(f)))
    if order is not None:
        decls = [decls[i] for i in order]
    return "\n\n".join(d[2] for d in decls) + "\n"


# ------------------------------------------------------------------ generation

class Scope:
    """Typing environment of one function while it is being generated."""

    def __init__(self, funcs, used_names, pure, depth_budget):
        self.vars = []  # list of dicts {name, t, ro (loop counter / final), size}
        self.funcs = funcs  # callable functions: list of function dicts (already generated)
        self.used = set(used_names)  # names ever declared in this function (no shadowing, no re-declaration)
        self.pure = pure

    def visible(self, t=None, writable=False):
        vs = [v for v in self.vars if (t is None or v["t"] == t)]
        if writable:
            vs = [v for v in vs if not v["ro"]]
        return vs


def lit(t, v):
    return {"k": "lit", "t": t, "v": v}


INT_LITS = [0, 1, 2, 3, 4, 5, 7, 8, 10, 12, 100, 255, 1000, 46341, 65536, 100000, 2000000000]
LONG_LITS = [0, 1, 2, 3, 5, 10, 1000, 100000, 3000000000, 4294967296, 1000000000000]
FLOAT_LITS = [0.0, 0.5, 1.0, 1.5, 2.0, 2.25, 3.0, 0.125, 10.0, 100.5, 0.75, 7.0]
STR_LITS = ["", "a", "b", "ab", "x=", " ", "hi", "v:", "k", "zz"]


@st.composite
def gen_lit(draw, t, small=False):
    if t == "int":
        v = draw(st.sampled_from(INT_LITS[:9] if small else INT_LITS))
        if not small and draw(st.integers(0, 5)) == 0:
            v = -v
        return lit("int", v)
    if t == "long":
        v = draw(st.sampled_from(LONG_LITS[:6] if small else LONG_LITS))
        if not small and draw(st.integers(0, 5)) == 0:
            v = -v
        return lit("long", v)
    if t == "float":
        v = draw(st.sampled_from(FLOAT_LITS))
        if draw(st.integers(0, 5)) == 0:
            v = -v
        return lit("float", v)
    if t == "bit":
        return lit("bit", draw(st.integers(0, 1)))
    if t == "boolean":
        return lit("boolean", draw(st.booleans()))
    if t == "string":
        return lit("string", draw(st.sampled_from(STR_LITS)))
    raise ValueError(t)


@st.composite
def gen_expr(draw, sc, t, depth, allow_call=True, pure_only=False):
    """Expression of static type t.  pure_only: no side effects and no partial operations (/, %, indexing, calls)."""
    if t.endswith("[]"):
        e = draw(gen_array_expr(sc, t, depth))
        assert e is not None, "array expression requested without a variable in scope"
        return e
    vs = sc.visible(t)
    choices = ["lit"]
    if vs:
        choices += ["var", "var", "var"]
    if depth > 0:
        if t in NUMERIC:
            choices += ["arith", "arith", "arith", "neg", "cast"]
            if t == "float" and not pure_only:
                choices += ["div"]
            if t in ("int", "long") and not pure_only:
                choices += ["mod"]
            if t == "int" and not pure_only and sc.visible("int", writable=True) and not sc.pure_expr_only:
                choices += ["post"]
        if t == "boolean":
            choices += ["cmp", "cmp", "cmp", "logic", "logic", "not", "eq"]
        if t == "bit":
            choices += ["bitop", "bitop", "bitnot", "cast"]
        if t == "string":
            choices += ["concat", "concat"]
        extra = getattr(sc, "extra_exprs", None)
        if extra is not None and not pure_only and not getattr(sc, "pure_expr_only", False) and extra(t):
            choices += ["extra", "extra", "extra"]
        if not pure_only:
            arrs = [v for v in sc.vars if v["t"] == t + "[]"]
            if arrs:
                choices += ["idx", "idx"]
            if allow_call and callable_funcs(sc, t, True):
                choices += ["call", "call"]
    c = draw(st.sampled_from(choices))
    d = depth - 1
    if c == "lit":
        return draw(gen_lit(t))
    if c == "extra":
        mk = draw(st.sampled_from(sc.extra_exprs(t)))
        return mk(draw, d)
    if c == "var":
        v = draw(st.sampled_from(vs))
        node = {"k": "var", "t": t, "name": v["name"]}
        if v.get("field") and not v.get("static"):
            node["via_this"] = draw(st.booleans())
        return node
    if c == "arith":
        op = draw(st.sampled_from(["+", "-", "*", "+"]))
        # operand types whose promotion is t
        if t == "int":
            lt, rt = "int", "int"
        elif t == "long":
            lt, rt = draw(st.sampled_from([("long", "long"), ("long", "int"), ("int", "long")]))
        else:
            lt, rt = draw(st.sampled_from([("float", "float"), ("float", "int"), ("int", "float"), ("float", "long"),
                                           ("long", "float")]))
        return {"k": "bin", "t": t, "op": op, "l": draw(gen_expr(sc, lt, d, allow_call, pure_only)),
                "r": draw(gen_expr(sc, rt, d, allow_call, pure_only))}
    if c == "div":
        lt = draw(st.sampled_from(NUMERIC))
        rt = draw(st.sampled_from(NUMERIC))
        return {"k": "bin", "t": "float", "op": "/", "l": draw(gen_expr(sc, lt, d, allow_call)),
                "r": draw(gen_expr(sc, rt, d, allow_call))}
    if c == "mod":
        # operands non-negative by construction (the docs do not fix % on negatives): left is a non-negative
        # literal or a loop counter, right a positive literal or (rarely) an int variable that may be 0
        nn = [x for x in sc.visible("int") if x.get("nonneg")]
        if nn and draw(st.booleans()):
            le = {"k": "var", "t": "int", "name": draw(st.sampled_from(nn))["name"]}
        else:
            le = lit("int", draw(st.sampled_from([0, 1, 5, 7, 12, 100, 1000, 65536])))
        if t == "long":
            if draw(st.booleans()):
                le = lit("long", draw(st.sampled_from([0, 7, 1000, 3000000000, 1000000000000])))
                re_ = lit(draw(st.sampled_from(["int", "long"])), draw(st.sampled_from([1, 2, 3, 7, 10, 1000])))
            else:
                re_ = lit("long", draw(st.sampled_from([1, 2, 3, 7, 10, 1000, 4294967296])))
        else:
            ints = sc.visible("int")
            if ints and draw(st.integers(0, 5)) == 0:
                re_ = {"k": "var", "t": "int", "name": draw(st.sampled_from(ints))["name"]}
            else:
                re_ = lit("int", draw(st.sampled_from([1, 2, 3, 7, 10, 1000])))
        return {"k": "bin", "t": t, "op": "%", "l": le, "r": re_}
    if c == "neg":
        return {"k": "un", "t": t, "op": "-", "e": draw(gen_expr(sc, t, d, allow_call, pure_only))}
    if c == "cast":
        src = draw(st.sampled_from([x for x in ["int", "long", "float", "bit"] if x != t]))
        return {"k": "cast", "t": t, "to": t, "e": draw(gen_expr(sc, src, d, allow_call, pure_only))}
    if c == "post":
        v = draw(st.sampled_from(sc.visible("int", writable=True)))
        sc.pure_expr_only = True  # at most one side effect per expression
        return {"k": "post", "t": "int", "op": draw(st.sampled_from(["++", "--"])), "name": v["name"]}
    if c == "cmp":
        lt = draw(st.sampled_from(NUMERIC))
        rt = draw(st.sampled_from(NUMERIC))
        return {"k": "bin", "t": "boolean", "op": draw(st.sampled_from(["<", ">", "<=", ">="])),
                "l": draw(gen_expr(sc, lt, d, allow_call, pure_only)), "r": draw(gen_expr(sc, rt, d, allow_call, pure_only))}
    if c == "eq":
        kind = draw(st.sampled_from(["num", "num", "string", "boolean", "bit"]))
        if kind == "num":
            lt = draw(st.sampled_from(NUMERIC))
            rt = draw(st.sampled_from(NUMERIC))
        else:
            lt = rt = kind
        return {"k": "bin", "t": "boolean", "op": draw(st.sampled_from(["==", "!="])),
                "l": draw(gen_expr(sc, lt, d, allow_call, pure_only)), "r": draw(gen_expr(sc, rt, d, allow_call, pure_only))}
    if c == "logic":
        lt = draw(st.sampled_from(["boolean", "boolean", "bit"]))
        rt = draw(st.sampled_from(["boolean", "boolean", "bit"]))
        # right operand: no side effects / partial operations (short-circuiting is not documented)
        return {"k": "bin", "t": "boolean", "op": draw(st.sampled_from(["&&", "||"])),
                "l": draw(gen_expr(sc, lt, d, allow_call, pure_only)), "r": draw(gen_expr(sc, rt, d, False, True))}
    if c == "not":
        return {"k": "un", "t": "boolean", "op": "!", "e": draw(gen_expr(sc, draw(st.sampled_from(["boolean", "bit"])), d,
                                                                    allow_call, pure_only))}
    if c == "bitop":
        return {"k": "bin", "t": "bit", "op": draw(st.sampled_from(["&", "|", "^"])),
                "l": draw(gen_expr(sc, "bit", d, allow_call, pure_only)), "r": draw(gen_expr(sc, "bit", d, allow_call, pure_only))}
    if c == "bitnot":
        return {"k": "un", "t": "bit", "op": "~", "e": draw(gen_expr(sc, "bit", d, allow_call, pure_only))}
    if c == "concat":
        ot = draw(st.sampled_from(["string", "string", "int", "long", "float", "bit", "boolean"]))
        a = draw(gen_expr(sc, "string", d, allow_call, pure_only))
        b = draw(gen_expr(sc, ot, d, allow_call, pure_only))
        if ot != "string" and draw(st.booleans()):
            a, b = b, a
        return {"k": "bin", "t": "string", "op": "+", "l": a, "r": b}
    if c == "idx":
        arrs = [v for v in sc.vars if v["t"] == t + "[]"]
        v = draw(st.sampled_from(arrs))
        n = v.get("len") or 3
        mode = draw(st.integers(0, 9))
        if mode == 0:  # possibly out of range on purpose
            ie = draw(gen_expr(sc, "int", d, False, False))
        else:
            ie = lit("long" if mode >= 8 else "int", draw(st.integers(0, max(0, n - 1))))
            ints = sc.visible("int")
            if ints and mode <= 3:
                # i % n is in range for non-negative i; generator keeps loop counters non-negative
                cand = [x for x in ints if x.get("nonneg")]
                if cand:
                    x = draw(st.sampled_from(cand))
                    ie = {"k": "bin", "t": "int", "op": "%", "l": {"k": "var", "t": "int", "name": x["name"]},
                          "r": lit("int", n)}
        return {"k": "idx", "t": t, "name": v["name"], "i": _no_neg_const(ie)}
    if c == "call":
        fs = callable_funcs(sc, t, True)
        f = draw(st.sampled_from(fs))
        args = []
        for ai, (pt, _) in enumerate(f["params"]):
            at = pt
            if f.get("rec") and ai == 0:
                # recursion depth is bounded by construction: small non-negative literal (or a loop counter)
                nn = [x for x in sc.visible("int") if x.get("nonneg")]
                if nn and draw(st.booleans()):
                    args.append({"k": "var", "t": "int", "name": draw(st.sampled_from(nn))["name"]})
                else:
                    args.append(lit("int", draw(st.integers(0, 6))))
                continue
            if pt == "long" and draw(st.booleans()):
                at = "int"  # int widens to long in calls
            args.append(draw(gen_expr(sc, at, min(d, 1), False, False)))
        return {"k": "call", "t": t, "f": f["name"], "args": args}
    raise ValueError(c)


@st.composite
def gen_array_expr(draw, sc, t, depth, decl=False):
    """Array-typed expression.  Literals only as declaration initialisers (the only position the docs show);
    elsewhere array variables, and for bit[] the element-wise operators between same-length variables."""
    vs = sc.visible(t)
    et = elem_type(t)
    if vs and (not decl or draw(st.booleans())):
        if t == "bit[]" and draw(st.integers(0, 2)) == 0:
            a = draw(st.sampled_from(vs))
            same = [v for v in vs if v.get("len") is not None and v.get("len") == a.get("len")]
            if same:
                b = draw(st.sampled_from(same))
                va = {"k": "var", "t": t, "name": a["name"]}
                vb = {"k": "var", "t": t, "name": b["name"]}
                if draw(st.integers(0, 2)) == 0:
                    return {"k": "un", "t": t, "op": "~", "e": va, "len": a.get("len")}
                return {"k": "bin", "t": t, "op": draw(st.sampled_from(["&", "|", "^"])), "l": va, "r": vb,
                        "len": a.get("len")}
        v = draw(st.sampled_from(vs))
        return {"k": "var", "t": t, "name": v["name"], "len": v.get("len")}
    if not decl:
        return None
    n = draw(st.integers(1, 4))
    elems = []
    for _ in range(n):
        xt = et
        # documented permissive element conversions
        if et == "int" and draw(st.integers(0, 4)) == 0:
            xt = draw(st.sampled_from(["bit", "float"]))
        elif et == "float" and draw(st.integers(0, 4)) == 0:
            xt = draw(st.sampled_from(["int", "bit"]))
        elems.append(draw(gen_lit(xt, small=True)) if depth <= 0 or xt != et else draw(gen_expr(sc, xt, 1, False, True)))
    return {"k": "arrlit", "t": t, "elems": elems, "len": n}


def callable_funcs(sc, ret, pure):
    """Functions of the wanted return type whose array parameters can be fed from variables in scope."""
    out = []
    for f in sc.funcs:
        if f["ret"] != ret or (pure and not f["pure"]):
            continue
        if all((not pt.endswith("[]")) or sc.visible(pt) for pt, _ in f["params"]):
            out.append(f)
    return out


def _ret_expr_t(draw, ret):
    """Static type of a return expression for a function declared `-> ret`: an int expression is accepted where long is
    declared and is widened by the return (docs: implicit int -> long)."""
    return "int" if (ret == "long" and draw(st.booleans())) else ret


def fresh_name(draw, sc, pool=None):
    pool = pool or NAME_POOL
    free = [n for n in pool if n not in sc.used]
    if not free:
        k = 0
        while f"v{k}" in sc.used:
            k += 1
        name = f"v{k}"
    else:
        name = draw(st.sampled_from(free))
    sc.used.add(name)
    return name


@st.composite
def gen_block(draw, sc, nstmts, depth, ret_t, in_loop, allow_echo):
    """List of statements; variables declared here go out of scope at the end (names stay reserved)."""
    mark = len(sc.vars)
    out = []
    sc.in_loop = in_loop
    for _ in range(nstmts):
        s = draw(gen_stmt(sc, depth, ret_t, in_loop, allow_echo))
        sc.in_loop = in_loop
        if s["k"] == "seq":
            out += s["body"]
        else:
            out.append(s)
    del sc.vars[mark:]
    hook = getattr(sc, "on_scope_exit", None)
    if hook is not None:
        hook(mark)
    return out


@st.composite
def gen_stmt(draw, sc, depth, ret_t, in_loop, allow_echo):
    choices = ["decl", "decl", "assign", "assign"]
    if allow_echo:
        choices += ["echo", "echo", "echo"]
    if depth > 0:
        choices += ["if", "if", "for", "while", "tern", "block"]
    if [v for v in sc.vars if v["t"].endswith("[]") and not v["ro"]]:
        choices += ["aset", "arrassign"]
    if sc.visible("int", writable=True):
        choices += ["poststmt"]
    if allow_echo and callable_funcs(sc, "void", False):
        choices += ["callstmt", "callstmt"]
    if ret_t != "void" and depth > 0 and (not ret_t.endswith("[]") or sc.visible(ret_t)) and draw(st.integers(0, 6)) == 0:
        choices += ["earlyret"]
    extra_s = getattr(sc, "extra_stmts", None)
    if extra_s is not None and extra_s():
        choices += ["extra_stmt"] * getattr(sc, "extra_weight", 3)
    c = draw(st.sampled_from(choices))
    sc.pure_expr_only = False
    if c == "extra_stmt":
        mk = draw(st.sampled_from(extra_s()))
        return mk(draw, depth)
    if c == "decl":
        t = draw(st.sampled_from(getattr(sc, "decl_types", None) or (SCALARS + SCALARS + ARRAYS)))
        name = fresh_name(draw, sc)
        if t.endswith("[]"):
            if draw(st.integers(0, 2)) == 0:
                n = draw(st.integers(1, 4))
                s = {"k": "decl", "t": t, "name": name, "init": None, "size": n}
                sc.vars.append({"name": name, "t": t, "ro": False, "len": n})
                return s
            e = draw(gen_array_expr(sc, t, 1, decl=True))
            sc.vars.append({"name": name, "t": t, "ro": False, "len": e.get("len")})
            return {"k": "decl", "t": t, "name": name, "init": e}
        it = t
        if t == "long" and draw(st.booleans()):
            it = "int"  # widening initialiser
        e = draw(gen_expr(sc, it, 2))
        fin = draw(st.integers(0, 7)) == 0
        sc.vars.append({"name": name, "t": t, "ro": fin})
        return {"k": "decl", "t": t, "name": name, "init": e, "final": fin}
    if c == "assign":
        vs = [v for v in sc.vars if not v["ro"] and not v["t"].endswith("[]")]
        if not vs:
            return draw(gen_stmt_fallback(sc, allow_echo))
        v = draw(st.sampled_from(vs))
        it = v["t"]
        if it == "long" and draw(st.booleans()):
            it = "int"
        e = draw(gen_expr(sc, it, 2))
        if v.get("field") and not v.get("static") and draw(st.booleans()):
            return {"k": "fset", "obj": {"k": "this", "t": sc.this_class}, "name": v["name"], "e": e}
        if draw(st.integers(0, 5)) == 0:
            return {"k": "expr", "e": {"k": "assign", "t": v["t"], "name": v["name"], "e": e}}
        return {"k": "assign", "name": v["name"], "e": e}
    if c == "arrassign":
        vs = [v for v in sc.vars if v["t"].endswith("[]") and not v["ro"]]
        v = draw(st.sampled_from(vs))
        e = draw(gen_array_expr(sc, v["t"], 1))
        v["len"] = e.get("len")
        # inside loops/branches the static length is no longer known
        if in_loop:
            v["len"] = None
        return {"k": "assign", "name": v["name"], "e": e}
    if c == "aset":
        vs = [v for v in sc.vars if v["t"].endswith("[]") and not v["ro"]]
        v = draw(st.sampled_from(vs))
        n = v.get("len") or 1
        mode = draw(st.integers(0, 9))
        # indices of type long are legal in reads and in stores (modes 1-3: a long literal; seeded change C07-a4)
        ie = draw(gen_expr(sc, "int", 1, False, False)) if mode == 0 else lit("long" if mode <= 3 else "int", draw(st.integers(0, max(0, n - 1))))
        return {"k": "aset", "name": v["name"], "i": _no_neg_const(ie), "e": draw(gen_expr(sc, elem_type(v["t"]), 2))}
    if c == "echo":
        t = draw(st.sampled_from(getattr(sc, "decl_types", None) or (SCALARS + SCALARS + ARRAYS)))
        if t.endswith("[]"):
            vs = sc.visible(t)
            if not vs:
                t = "int"
            else:
                v = draw(st.sampled_from(vs))
                return {"k": "echo", "e": {"k": "var", "t": t, "name": v["name"]}}
        return {"k": "echo", "e": draw(gen_expr(sc, t, 3))}
    if c == "poststmt":
        v = draw(st.sampled_from(sc.visible("int", writable=True)))
        return {"k": "expr", "e": {"k": "post", "t": "int", "op": draw(st.sampled_from(["++", "--"])), "name": v["name"]}}
    if c == "callstmt":
        f = draw(st.sampled_from(callable_funcs(sc, "void", False)))
        args = [draw(gen_expr(sc, pt if not (pt == "long" and draw(st.booleans())) else "int", 1, False, False))
                for pt, _ in f["params"]]
        return {"k": "expr", "e": {"k": "call", "t": "void", "f": f["name"], "args": args}}
    if c == "earlyret":
        return {"k": "if", "c": draw(gen_expr(sc, "boolean", 2)), "then": [{"k": "ret", "e": draw(gen_expr(sc, _ret_expr_t(draw, ret_t), 2))}],
                "else": None}
    if c == "if":
        cond = draw(gen_expr(sc, draw(st.sampled_from(["boolean", "boolean", "bit"])), 2))
        snap = [dict(v) for v in sc.vars]
        th = draw(gen_block(sc, draw(st.integers(1, 3)), depth - 1, ret_t, in_loop, allow_echo))
        el = None
        if draw(st.booleans()):
            el = draw(gen_block(sc, draw(st.integers(1, 2)), depth - 1, ret_t, in_loop, allow_echo))
        _forget_lengths(sc, snap)
        return {"k": "if", "c": cond, "then": th, "else": el}
    if c == "tern":
        cond = draw(gen_expr(sc, draw(st.sampled_from(["boolean", "bit"])), 2))
        a = draw(gen_simple_stmt(sc, allow_echo))
        b = draw(gen_simple_stmt(sc, allow_echo))
        return {"k": "tern", "c": cond, "then": a, "else": b}
    if c == "block":
        return {"k": "block", "body": draw(gen_block(sc, draw(st.integers(1, 3)), depth - 1, ret_t, in_loop, allow_echo))}
    if c in ("for", "while"):
        i = fresh_name(draw, sc, ["i", "j", "k", "n", "m", "idx", "cnt"])
        n = draw(st.integers(0, 5))
        sc.vars.append({"name": i, "t": "int", "ro": True, "nonneg": True})
        snap = [dict(v) for v in sc.vars]
        for v in sc.vars:
            if v["t"].endswith("[]"):
                pass
        cond = {"k": "bin", "t": "boolean", "op": "<", "l": {"k": "var", "t": "int", "name": i}, "r": lit("int", n)}
        body = draw(gen_block(sc, draw(st.integers(1, 3)), depth - 1, ret_t, True, allow_echo))
        _forget_lengths(sc, snap)
        incr_assign = {"k": "assign", "t": "int", "name": i,
                       "e": {"k": "bin", "t": "int", "op": "+", "l": {"k": "var", "t": "int", "name": i}, "r": lit("int", 1)}}
        if c == "for":
            inc = incr_assign if draw(st.booleans()) else {"k": "post", "t": "int", "op": "++", "name": i}
            s = {"k": "for", "init": {"k": "decl", "t": "int", "name": i, "init": lit("int", 0)}, "c": cond, "inc": inc,
                 "body": body}
            sc.vars[:] = [v for v in sc.vars if v["name"] != i]  # for-init variable is scoped to the loop
            return s
        body = body + [{"k": "assign", "name": i, "e": incr_assign["e"]}]
        # the counter stays visible after the while loop (declared before it); keep it read-only
        _drop(sc, i)
        return {"k": "block", "body": [{"k": "decl", "t": "int", "name": i, "init": lit("int", 0)},
                                       {"k": "while", "c": cond, "body": body}]}
    raise ValueError(c)


def _no_neg_const(ie):
    """`a[-1]` (constant negative index) is rejected at parse time by documentation; write it as a computed value."""
    neg_lit = ie["k"] == "lit" and ie["v"] < 0
    neg_un = ie["k"] == "un" and ie["op"] == "-" and ie["e"]["k"] == "lit"
    if neg_lit or neg_un:
        return {"k": "bin", "t": "int", "op": "-", "l": lit("int", 0), "r": lit("int", abs(ie["v"] if neg_lit else ie["e"]["v"]))}
    return ie


def _drop(sc, name):
    sc.vars[:] = [v for v in sc.vars if v["name"] != name]
    return None


def _forget_lengths(sc, snap):
    """After a branch or loop the static length of arrays reassigned inside is unknown."""
    old = {v["name"]: v.get("len") for v in snap}
    for v in sc.vars:
        if v["t"].endswith("[]") and v["name"] in old and v.get("len") != old[v["name"]]:
            v["len"] = None


@st.composite
def gen_stmt_fallback(draw, sc, allow_echo):
    if allow_echo:
        return {"k": "echo", "e": draw(gen_expr(sc, "int", 2))}
    name = fresh_name(draw, sc)
    init = draw(gen_expr(sc, "int", 2))
    sc.vars.append({"name": name, "t": "int", "ro": False})
    return {"k": "decl", "t": "int", "name": name, "init": init}


@st.composite
def gen_simple_stmt(draw, sc, allow_echo):
    """Statement allowed as a ternary branch (no declarations, which would need a scope)."""
    sc.pure_expr_only = False
    vs = [v for v in sc.vars if not v["ro"] and not v["t"].endswith("[]")]
    if vs and (not allow_echo or draw(st.booleans())):
        v = draw(st.sampled_from(vs))
        return {"k": "assign", "name": v["name"], "e": draw(gen_expr(sc, v["t"], 2))}
    if allow_echo:
        return {"k": "echo", "e": draw(gen_expr(sc, draw(st.sampled_from(SCALARS)), 2))}
    return {"k": "block", "body": []}


@st.composite
def gen_function(draw, funcs, name, kind):
    """kind: 'pure' (value-returning, no echo), 'proc' (void, may echo), 'rec' (recursive pure int function), 'main'."""
    if kind == "main":
        sc = Scope(funcs, [], False, 3)
        sc.pure_expr_only = False
        body = draw(gen_block(sc, draw(st.integers(3, 9)), 3, "void", False, True))
        return {"name": "main", "params": [], "ret": "void", "body": body, "pure": False}
    nparams = draw(st.integers(0, 3))
    sc = Scope(funcs, [], kind != "proc", 2)
    sc.pure_expr_only = False
    params = []
    for _ in range(nparams):
        t = draw(st.sampled_from(SCALARS + ["int", "int[]", "float[]", "bit[]", "long"]))
        n = fresh_name(draw, sc)
        params.append([t, n])
        sc.vars.append({"name": n, "t": t, "ro": False, "len": None})
    if kind == "rec":
        n = fresh_name(draw, sc, ["n", "k", "m", "cnt", "lim"])
        params.insert(0, ["int", n])
        sc.vars.insert(0, {"name": n, "t": "int", "ro": True, "nonneg": False})
        ret = draw(st.sampled_from(["int", "long", "float", "string"]))
        me = {"name": name, "params": params, "ret": ret, "pure": True, "body": [], "rec": True}
        base = draw(gen_expr(sc, _ret_expr_t(draw, ret), 2))
        rec_args = [{"k": "bin", "t": "int", "op": "-", "l": {"k": "var", "t": "int", "name": n}, "r": lit("int", 1)}]
        for pt, pn in params[1:]:
            rec_args.append(draw(gen_expr(sc, pt, 1, False, False)))
        call = {"k": "call", "t": ret, "f": name, "args": rec_args}
        other = draw(gen_expr(sc, _ret_expr_t(draw, ret), 1, False, True))
        op = "+" if ret == "string" else draw(st.sampled_from(["+", "-", "+"]))
        comb = {"k": "bin", "t": ret, "op": op, "l": call, "r": other} if draw(st.booleans()) else \
            {"k": "bin", "t": ret, "op": op, "l": other, "r": call}
        pre = draw(gen_block(sc, draw(st.integers(0, 2)), 1, ret, False, False))
        me["body"] = [{"k": "if", "c": {"k": "bin", "t": "boolean", "op": "<=", "l": {"k": "var", "t": "int", "name": n},
                                         "r": lit("int", 0)}, "then": [{"k": "ret", "e": base}], "else": None}] + pre + \
                     [{"k": "ret", "e": comb}]
        return me
    if kind == "pure":
        ret = draw(st.sampled_from(SCALARS + ["int", "int[]", "float[]"]))
        body = draw(gen_block(sc, draw(st.integers(0, 4)), 2, ret, False, False))
        # keep variables alive for the return expression: regenerate in function scope
        sc2_vars = [dict(name=pn, t=pt, ro=False, len=None) for pt, pn in params]
        sc.vars[:] = sc2_vars
        decls = [s for s in body if s["k"] == "decl"]
        for s in decls:
            sc.vars.append({"name": s["name"], "t": s["t"], "ro": bool(s.get("final")), "len": s.get("size")})
        if ret.endswith("[]") and not sc.visible(ret):
            nm = fresh_name(draw, sc)
            e = draw(gen_array_expr(sc, ret, 1, decl=True))
            body.append({"k": "decl", "t": ret, "name": nm, "init": e})
            sc.vars.append({"name": nm, "t": ret, "ro": False, "len": e.get("len")})
        body.append({"k": "ret", "e": draw(gen_expr(sc, _ret_expr_t(draw, ret), 2))})
        return {"name": name, "params": params, "ret": ret, "body": body, "pure": True}
    body = draw(gen_block(sc, draw(st.integers(1, 5)), 2, "void", False, True))
    return {"name": name, "params": params, "ret": "void", "body": body, "pure": False}


FUNC_NAMES = ["f", "g", "hh", "calc", "step", "mix", "fold", "show"]


@st.composite
def classic_program(draw, min_funcs=0, max_funcs=4):
    funcs = []
    nf = draw(st.integers(min_funcs, max_funcs))
    names = draw(st.permutations(FUNC_NAMES))[:nf]
    for nm in names:
        kind = draw(st.sampled_from(["pure", "pure", "proc", "rec"]))
        funcs.append(draw(gen_function(list(funcs), nm, kind)))
    main = draw(gen_function(list(funcs), "main", "main"))
    return {"funcs": funcs + [main]}


# ------------------------------------------------------------------ feature tags

def walk_exprs(e, fn):
    fn(e)
    for key in ("l", "r", "e", "i", "obj"):
        if isinstance(e.get(key), dict):
            walk_exprs(e[key], fn)
    for key in ("args", "elems"):
        for x in e.get(key, []) or []:
            walk_exprs(x, fn)


def walk_stmts(body, fs, fe):
    for s in body:
        fs(s)
        for key in ("init", "c", "e", "i", "inc", "obj"):
            v = s.get(key)
            if isinstance(v, dict):
                if "k" in v and v["k"] in ("decl",):
                    walk_stmts([v], fs, fe)
                else:
                    walk_exprs(v, fe)
        for key in ("then", "else", "body"):
            v = s.get(key)
            if isinstance(v, list):
                walk_stmts(v, fs, fe)
            elif isinstance(v, dict):
                walk_stmts([v], fs, fe)


def features(p):
    ops = set()
    feats = set()

    def fe(e):
        if e["k"] == "bin":
            ops.add(e["op"])
        elif e["k"] == "un":
            ops.add("u" + e["op"])
        elif e["k"] in ("cast", "call", "idx", "post", "arrlit"):
            feats.add(e["k"])
            ops.add(e["k"])

    def fs(s):
        if s["k"] in ("for", "while"):
            feats.add("loop")
        if s["k"] == "echo":
            feats.add("echo")
        if s["k"] in ("tern", "aset", "if"):
            feats.add(s["k"])

    for f in p["funcs"]:
        walk_stmts(f["body"], fs, fe)
    return ops, feats
