"""C06 — a measured qubit cannot be operated on until reset, through any access path.

Model-based: a sequence (<= 14) of declare / gate / cx / measure-statement / measure-expression / measure-array / reset /
destroy-owner / re-declare operations over a few qubits, each rendered through a randomly chosen access path (variable,
register element, function parameter, nested call, static-method parameter, o.q / o.r[i], this.q and bare q inside a method).
One operation per source line.  The model (per-qubit active/measured) gives the index j of the first operation that touches
a measured qubit, or none.
Oracle: none -> exit 0, no runtime error.  Otherwise exit 1 with ONE LOCATED `Runtime error` (line > 0) whose line is that of
operation j (or of the built-in call inside the helper it was routed through), and - metamorphic prefix check - the program
truncated just before j exits 0 while the one truncated just after j fails.  A diagnostic without location means the
simulator-side guard fired because the evaluator-side flag disagreed: a violation.
"""
import sys

from hypothesis import strategies as st

from .. import progrun, qprog
from ..common import Check, Failure, Scratch, Stats, hyp_search, run_workers

PATHS1 = ["direct", "direct", "fn", "nested", "static"]


@st.composite
def sequence(draw):
    decls = []
    handles = []
    regs = {}
    objs = []
    nq = 0
    # declarations first (flat program)
    for _ in range(draw(st.integers(1, 3))):
        k = draw(st.sampled_from(["q", "q", "r", "o"]))
        if k == "q" and nq < 5:
            nm = f"q{len(decls)}"
            decls.append(["qdecl", nm, False])
            handles.append(["var", nm])
            nq += 1
        elif k == "r" and nq < 4:
            nm = f"r{len(decls)}"
            n = draw(st.integers(2, 3))
            decls.append(["rdecl", nm, n, False])
            regs[nm] = n
            handles += [["elem", nm, i] for i in range(n)]
            nq += n
        elif k == "o" and not objs and nq < 3:
            nm = f"o{len(decls)}"
            decls.append(["odecl", nm])
            objs.append(nm)
            handles += [["field", nm, "q"], ["felem", nm, "r", 0], ["felem", nm, "r", 1]]
            nq += 3
    if not handles:
        decls.append(["qdecl", "q9", False])
        handles.append(["var", "q9"])
    ops = []
    live = [list(h) for h in handles]
    live_objs = list(objs)
    nbits = 0
    for _ in range(draw(st.integers(2, 14))):
        c = draw(st.sampled_from(["gate", "gate", "gate", "cx", "mstmt", "mexpr", "mexpr", "marr", "reset", "reset", "self",
                                  "destroy", "redeclare"]))
        if c == "gate":
            h = draw(st.sampled_from(live))
            g = draw(st.sampled_from(qprog.GATES1 + ["rx", "rz"]))
            a = draw(st.sampled_from(qprog.ANGLES)) if g in qprog.ROT else None
            path = draw(st.sampled_from(PATHS1 if g not in qprog.ROT else ["direct", "fn", "static"]))
            ops.append(["gate", g, path, [h], a])
        elif c == "cx" and len(live) >= 2:
            h1 = draw(st.sampled_from(live))
            h2 = draw(st.sampled_from([x for x in live if x != h1]))
            ops.append(["gate", "cx", draw(st.sampled_from(PATHS1)), [h1, h2], None])
        elif c == "mstmt":
            ops.append(["mstmt", draw(st.sampled_from(live))])
        elif c == "mexpr":
            h = draw(st.sampled_from(live))
            nbits += 1
            path = draw(st.sampled_from(["direct", "fn", "nested", "static"]))
            if h[0] == "field" and draw(st.booleans()):
                path = "self"
            ops.append(["mexpr", h, f"b{nbits}", path])
        elif c == "marr":
            cands = [["var", r] for r in regs] + [["obj", o] for o in live_objs]
            if cands:
                ops.append(["marr", draw(st.sampled_from(cands))])
        elif c == "reset":
            ops.append(["reset", draw(st.sampled_from(live))])
        elif c == "self" and live_objs:
            o = draw(st.sampled_from(live_objs))
            g = draw(st.sampled_from(["h", "x", "cx"]))
            hs = [["field", o, "q"]] + ([["felem", o, "r", 0]] if g == "cx" else [])
            ops.append(["gate", g, "self", hs, None])
        elif c == "destroy" and live_objs:
            o = live_objs.pop()
            live = [h for h in live if not (h[0] in ("field", "felem") and h[1] == o)]
            ops.append(["destroy", o])
            if not live:
                ops.append(["qdecl", "qz", False])
                live.append(["var", "qz"])
        elif c == "redeclare" and not live_objs and len(ops) < 12:
            nm = f"p{len(ops)}"
            ops.append(["odecl", nm])
            live_objs.append(nm)
            live += [["field", nm, "q"], ["felem", nm, "r", 0], ["felem", nm, "r", 1]]
    return {"decls": decls, "ops": ops, "seed": draw(st.integers(0, 2**31 - 1))}


def program_of(case, upto=None):
    ops = case["ops"] if upto is None else case["ops"][:upto]
    return {"main": case["decls"] + ops, "tracked_q": False, "tracked_r": False, "seed": case["seed"]}


def model(case):
    """Index of the first operation that touches a measured qubit (or None), plus feature tags."""
    measured = {}
    tags = set()
    regs = {d[1]: d[2] for d in case["decls"] if d[0] == "rdecl"}

    def touch(hs):
        return any(measured.get(qprog.hkey(h), False) for h in hs)

    for j, s in enumerate(case["ops"]):
        k = s[0]
        if k == "gate":
            if touch(s[3]):
                return j, tags | ({"offender_nonvariable_path"} if s[2] != "direct" or s[3][0][0] != "var" else set())
        elif k in ("mstmt", "mexpr"):
            if touch([s[1]]):
                return j, tags | ({"offender_nonvariable_path"} if (k == "mexpr" and s[3] != "direct") or s[1][0] != "var" else set())
            measured[qprog.hkey(s[1])] = True
        elif k == "marr":
            if s[1][0] == "var":
                hs = [["elem", s[1][1], i] for i in range(regs[s[1][1]])]
            else:
                hs = [["felem", s[1][1], "r", 0], ["felem", s[1][1], "r", 1]]
            if touch(hs):
                return j, tags | {"offender_nonvariable_path", "array_measure"}
            for h in hs:
                measured[qprog.hkey(h)] = True
            tags.add("array_measure")
        elif k == "reset":
            if measured.get(qprog.hkey(s[1])):
                tags.add("measure_reset_use")
            measured[qprog.hkey(s[1])] = False
        elif k == "destroy":
            for key in [key for key in measured if key[0] in ("field", "felem") and key[1] == s[1]]:
                del measured[key]
        elif k == "odecl":
            tags.add("recycle")
    return None, tags


def render_with_lines(p):
    """Source plus the 1-based line of every main statement."""
    src = qprog.render(p)
    lines = src.split("\n")
    start = next(i for i, ln in enumerate(lines) if ln.startswith("function main")) + 1
    stmt_lines = []
    ln = start + 1
    for s in p["main"]:
        stmt_lines.append(ln)
        out = []
        qprog.render_stmt(s, 1, out)
        ln += len(out)
    return src, stmt_lines, start


class C06(Check):
    prop = "C06"
    rule = ("model-based sequences (<=14 ops, <=5 qubits incl. a register and an object owning qubits) rendered through random "
            "access paths; the model predicts the first offending operation; 3 runs per sequence (full, prefix before, prefix "
            "through the offender). non-trivial = the first offending operation is reached through a non-variable path, or the "
            "sequence contains measure -> reset -> use, or a recycle; distinct = SHA-1 of the sequence")
    assumptions = ["the diagnostic line may be that of the built-in call inside the prelude helper the operation was routed through"]
    floors = {"__nontrivial__": (800, 15000), "has_offender": (500, 8000), "no_offender": (300, 5000), "array_measure": (150, 2000)}

    def run_prog(self, p, sc):
        src, stmt_lines, main_line = render_with_lines(p)
        r = progrun.run_cli(self.drv, sc, src, env={"BLOCH_VERIF_SHOT_SEED": str(p["seed"])})
        return src, stmt_lines, main_line, r

    def run_case(self, case, sc, stats=None):
        j, tags = model(case)
        nd = len(case["decls"])
        src, stmt_lines, main_line, r = self.run_prog(program_of(case), sc)
        if r.proc.timeout:
            if stats is not None:
                stats.inconclusive += 1
            return None
        if r.proc.crashed() or r.rc not in (0, 1):
            return {"why": "interpreter died", "source": src, **r.proc.brief()}
        if r.diag and r.diag["cat"] != "Runtime":
            return {"why": f"generated program rejected: {r.diag}", "source": src}
        if stats is not None:
            t = sorted(tags) + (["has_offender"] if j is not None else ["no_offender"])
            nt = ("offender_nonvariable_path" in tags and j is not None) or "measure_reset_use" in tags or "recycle" in tags
            stats.record(case, nt, sample={"main": src[src.index("function main"):], "first_offender": j}, tags=t)
        # the same program as a 2-shot run: the CLI configures the evaluators of all shots but the last differently (no QASM
        # log, no exit warnings); the measured-qubit rule must not depend on that.  The sequences have no outcome-dependent
        # control flow, so every shot has the same first offender.
        r2s = progrun.run_cli(self.drv, sc, src, ["--shots=2"], env={"BLOCH_VERIF_SHOT_SEED": str(case.get("seed", 1))})
        if not r2s.proc.timeout:
            if r2s.proc.crashed() or r2s.rc not in (0, 1):
                return {"why": "interpreter died in a 2-shot run", "source": src, **r2s.proc.brief()}
            if j is None and r2s.rc != 0:
                return {"why": f"no operation touches a measured qubit, yet the 2-shot run failed: {r2s.stderr_lines[-1:]}", "source": src}
            if j is not None and (r2s.rc != 1 or not r2s.diag):
                return {"why": f"operation {j} ({case['ops'][j]}) touches a measured qubit but the 2-shot run completed (rc={r2s.rc})",
                        "source": src}
            if j is not None and r2s.diag["line"] <= 0:
                return {"why": f"2-shot run: runtime error without location (simulator-side guard fired: the two flags disagree): "
                               f"{r2s.diag['msg']}", "source": src}
        if j is None:
            if r.rc != 0:
                return {"why": f"no operation touches a measured qubit, yet the run failed: {r.stderr_lines[-1:]}", "source": src}
            return None
        if r.rc != 1 or not r.diag:
            return {"why": f"operation {j} ({case['ops'][j]}) touches a measured qubit but the program ran to completion "
                           f"(rc={r.rc})", "source": src}
        if r.diag["line"] <= 0:
            return {"why": f"runtime error without location (simulator-side guard fired: the two flags disagree): {r.diag['msg']}",
                    "source": src}
        want_line = stmt_lines[nd + j]
        s = case["ops"][j]
        routed = (s[0] == "gate" and s[2] != "direct") or (s[0] == "mexpr" and s[3] != "direct")
        if r.diag["line"] != want_line and not (routed and r.diag["line"] < main_line):
            return {"why": f"diagnostic points at line {r.diag['line']}, the offending operation {s} is on line {want_line}",
                    "diag": r.diag, "source": src}
        diags = [ln for ln in r.stderr_lines if progrun.DIAG_RE.match(ln)]
        if len(diags) != 1:
            return {"why": f"expected exactly one diagnostic, got {diags}", "source": src}
        # prefix closure
        s1, _, _, r1 = self.run_prog(program_of(case, j), sc)
        if r1.rc != 0 and not r1.proc.timeout:
            return {"why": f"the program truncated just before operation {j} should run cleanly but failed: {r1.stderr_lines[-1:]}",
                    "source": s1}
        s2, _, _, r2 = self.run_prog(program_of(case, j + 1), sc)
        if r2.rc != 1 and not r2.proc.timeout:
            return {"why": f"the program truncated just after operation {j} should fail but exited {r2.rc}", "source": s2}
        return None

    def oracle(self, case):
        with Scratch("c06") as sc:
            return self.run_case(case, sc)

    def search(self, tier, seed):
        return run_workers(_worker, seed, tier=tier, check=self)


def _worker(widx, wseed, tier, check):
    stats = Stats()
    failures = []
    with Scratch("c06") as sc:
        def prop(case, stats):
            why = check.run_case(case, sc, stats)
            if why is not None:
                raise Failure(why)
        f = hyp_search(sequence(), prop, wseed, 600 if tier == "quick" else 8000, stats)
        if f:
            failures.append(f)
    return {"stats": stats.export(), "failures": failures}


if __name__ == "__main__":
    sys.exit(C06().main(sys.argv[1:]))
