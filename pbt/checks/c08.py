"""C08 — object model: construction order, dispatch, overloads and generics as documented.

Generator: `classes` profile (pbt/genclass.py).  Oracle: pbt/ref_class.py predicts the complete echo trace (constructors,
field initialisers, methods and destructors all trace through T.tr).  Compared through the real CLI: exit status, echoed
lines (numeric tokens numerically), or the runtime error kind.
Kept out because undocumented: overload sets in which "most specific" is not unique parameter-wise (the widening family below
only generates calls where it is); reference cycles;
destructor-bearing objects held in fields; temporaries of destructor-bearing classes.
"""
import sys

from hypothesis import strategies as st

from .. import common, genclass, genprog, progrun, ref_class, ref_classic
from ..common import Check, Failure, Scratch, Stats, hyp_search, run_workers


def features(p):
    feats = set()
    classes = {c["name"]: c for c in p["classes"]}
    depth = {}
    for c in p["classes"]:
        d, b = 1, c.get("base")
        while b:
            d += 1
            b = classes[b].get("base")
        depth[c["name"]] = d
    if max(depth.values()) >= 2:
        feats.add("depth>=2")
    main = next(f for f in p["funcs"] if f["name"] == "main")
    decl_types = {}

    def fs(s):
        if s["k"] == "decl" and s["t"] in classes and s.get("init") is not None:
            decl_types[s["name"]] = s["t"]
            if s["init"]["k"] == "new" and s["init"]["cls"] != s["t"]:
                feats.add("base_typed_reference")
            if s["init"]["k"] == "var":
                feats.add("alias")
        if s["k"] == "destroy":
            feats.add("destroy")

    def fe(e):
        if e["k"] == "mcall" and not e.get("static"):
            feats.add("method_call")
            if e["obj"] == "super":
                feats.add("super_call")
            if e["obj"] is None:
                feats.add("bare_call")

    for f in p["funcs"]:
        genprog.walk_stmts(f["body"], fs, fe)
    for c in p["classes"]:
        names = [m["name"] for m in c["methods"]]
        if len(names) != len(set(names)):
            feats.add("overloads")
        if any(m["kind"] == "override" for m in c["methods"]):
            feats.add("override")
        if c.get("dtor"):
            feats.add("dtor")
        for m in c["methods"]:
            genprog.walk_stmts(m["body"], fs, fe)
    return feats


# ------------------------------------------------------------------ generic hierarchy family (own small model)

@st.composite
def generic_case(draw):
    """A chain R0 <- C1 <- ... of classes, each generic (type parameter E) or not, each with or without a destructor and with
    its own static counter; main constructs leaves with int / string arguments (also through diamond inference), queries the
    counters through inherited methods, destroys objects and leaves scopes."""
    depth = draw(st.integers(1, 4))
    levels = [{"generic": False, "dtor": draw(st.booleans())}]
    for _ in range(depth):
        levels.append({"generic": draw(st.booleans()), "dtor": draw(st.integers(0, 2)) == 0})
    actions = []
    nobj = draw(st.integers(1, 4))
    for k in range(nobj):
        arg = draw(st.sampled_from(["int", "string"]))
        actions.append(["new", k, arg, draw(st.booleans()), draw(st.integers(0, 9)), draw(st.integers(0, 3)) == 0])
        for _ in range(draw(st.integers(0, 2))):
            actions.append(["cnt", k, draw(st.integers(0, depth))])
        if draw(st.booleans()):
            actions.append(["destroy", k])
    return {"kind": "generic", "levels": levels, "actions": actions, "block": draw(st.booleans())}


def generic_program(case):
    lv = case["levels"]
    out = ["static class Tr { public static int ticks = 0; public static function tr(string s, int v) -> int { echo(s + v); return v; } "
           "public static function next() -> int { ticks = ticks + 1; return ticks; } }"]
    n = len(lv)
    for i, c in enumerate(lv):
        name = f"C{i}"
        head = f"class {name}" + ("<E>" if c["generic"] else "")
        self_t = name + ("<E>" if c["generic"] else "")
        if i > 0:
            b = lv[i - 1]
            head += f" extends C{i - 1}" + (("<E>" if c["generic"] else "<int>") if b["generic"] else "")
        body = []
        if i == 0:
            body.append("public final int id = Tr.next();")
        if c["generic"]:
            body.append("public E v;")
        body.append(f"public static int made{i} = 0;")
        bgen = i > 0 and lv[i - 1]["generic"]
        count = f"made{i} = made{i} + 1; Tr.tr(\"C{i}.ctor#\", this.id);"
        if c["generic"]:
            # two constructors: (E v) forwards v to a generic base, () uses the base's no-argument constructor
            sup_v = ("super(v); " if bgen else "super(); ") if i > 0 else ""
            sup_0 = "super(); " if i > 0 else ""
            body.append(f"public constructor(E v) -> {self_t} {{ {sup_v}this.v = v; {count} }}")
            body.append(f"public constructor() -> {self_t} {{ {sup_0}{count} }}")
        else:
            # a non-generic class below a generic one instantiates it with <int>.  super(7) there is the recorded finding
            # C08 generic-base-args (the analyser ignores the type arguments of 'extends'); generated cases use super()
            sup = ""
            if i > 0:
                sup = "super(7); " if (bgen and case.get("typed_super")) else "super(); "
            body.append(f"public constructor() -> {self_t} {{ {sup}{count} }}")
        body.append(f"public function cnt{i}() -> int {{ return made{i}; }}")
        if c["dtor"]:
            body.append(f"public destructor() -> void {{ Tr.tr(\"~C{i}#\", this.id); }}")
        out.append(head + " {\n    " + "\n    ".join(body) + "\n}")
    leaf = lv[-1]
    main = []
    for a in case["actions"]:
        if a[0] == "new":
            _, k, arg, diamond, val = a[:5]
            lit = str(val) if arg == "int" else f'"s{val}"'
            if leaf["generic"]:
                t = f"C{n - 1}<{arg}>"
                if a[5] if len(a) > 5 else False:
                    lit = ""
                rhs = f"new C{n - 1}<>({lit})" if diamond else f"new {t}({lit})"
            else:
                t = f"C{n - 1}"
                rhs = f"new {t}()"
            main.append(f"{t} o{k} = {rhs};")
        elif a[0] == "cnt":
            main.append(f"echo(o{a[1]}.cnt{a[2]}());")
        else:
            main.append(f"destroy o{a[1]};")
    if case["block"]:
        body = "    {\n        " + "\n        ".join(main) + "\n    }\n    echo(\"end\");"
    else:
        body = "    " + "\n    ".join(main) + "\n    echo(\"end\");"
    return "\n".join(out) + "\nfunction main() -> void {\n" + body + "\n}\n"


def generic_expected(case):
    lv = case["levels"]
    n = len(lv)
    statics = {}
    out = []
    objs = {}
    nid = 0
    alive = []

    def inst_args(arg):
        """type argument of every level's instantiation for an object whose leaf argument is `arg`"""
        args = [None] * n
        cur = arg if lv[-1]["generic"] else None
        args[n - 1] = cur
        for i in range(n - 1, 0, -1):
            if lv[i - 1]["generic"]:
                cur = cur if lv[i]["generic"] else "int"
            else:
                cur = None
            args[i - 1] = cur
        return args

    def die(k):
        o = objs[k]
        if o["dead"]:
            return
        o["dead"] = True
        for i in range(n - 1, -1, -1):
            if lv[i]["dtor"]:
                out.append(f"~C{i}#{o['id']}")

    for a in case["actions"]:
        if a[0] == "new":
            _, k, arg, diamond, val = a[:5]
            nid += 1
            args = inst_args(arg)
            objs[k] = {"id": nid, "args": args, "dead": False}
            alive.append(k)
            for i in range(n):
                statics[(i, args[i])] = statics.get((i, args[i]), 0) + 1
                out.append(f"C{i}.ctor#{nid}")
        elif a[0] == "cnt":
            o = objs[a[1]]
            if o["dead"]:
                return None  # use after destroy: null reference, not generated on purpose -> skip case
            out.append(str(statics[(a[2], o["args"][a[2]])]))
        else:
            die(a[1])
    tail = []
    for k in alive:
        if not objs[k]["dead"]:
            o = objs[k]
            tail += [f"~C{i}#{o['id']}" for i in range(n - 1, -1, -1) if lv[i]["dtor"]]
    if case["block"]:
        return out + tail + ["end"]
    return out + ["end"] + tail


# ------------------------------------------------------------------ overload matrix family (own small model)

OV_TYPES = ["int", "long", "float", "string", "boolean", "bit", "char", "int[]", "long[]", "float[]", "string[]", "boolean[]",
            "bit[]", "char[]", "P", "Q", "P2"]
OV_VARS = {"int": ("vi", "7"), "long": ("vl", "8L"), "float": ("vf", "1.5f"), "string": ("vs", '"s"'), "boolean": ("vb", "true"),
           "bit": ("vt", "1b"), "char": ("vc", "'c'"), "int[]": ("ai", "{1, 2}"), "long[]": ("al", "{1L}"), "float[]": ("af", "{1.0f}"),
           "string[]": ("as", '{"a"}'), "boolean[]": ("ab", "{true}"), "bit[]": ("at", "{1b, 0b}"), "char[]": ("ac", "{'a'}"),
           "P": ("vp", "new P()"), "Q": ("vq", "new Q()"), "P2": ("vp2", "new P2()")}


@st.composite
def overload_case(draw):
    """One method name `m` carrying 2..7 overloads (1-2 parameters over primitive, array and class types) spread over a chain
    K0 <- K1 <- K2: each declared at some level (virtual or plain), a virtual one possibly overridden once further down; calls
    with EXACTLY typed arguments through references of every static type that sees the overload, directly and through relay
    methods using a bare or this-qualified call."""
    depth = draw(st.integers(1, 3))
    nsig = draw(st.integers(2, 7))
    sigs, seen = [], set()
    for _ in range(nsig):
        ps = tuple(draw(st.lists(st.sampled_from(OV_TYPES), min_size=1, max_size=2)))
        if ps in seen:
            continue
        seen.add(ps)
        lvl = draw(st.integers(0, depth - 1))
        virt = draw(st.booleans())
        ov = draw(st.integers(lvl + 1, depth - 1)) if (virt and lvl + 1 <= depth - 1 and draw(st.booleans())) else None
        relay = draw(st.sampled_from([None, "bare", "this"]))
        sigs.append({"params": list(ps), "level": lvl, "virtual": virt, "override": ov, "relay": relay,
                     "relay_level": draw(st.integers(lvl, depth - 1))})
    calls = []
    for _ in range(draw(st.integers(2, 8))):
        i = draw(st.integers(0, len(sigs) - 1))
        sg = sigs[i]
        dyn = draw(st.integers(sg["level"], depth - 1))
        use_relay = sg["relay"] is not None and draw(st.booleans())
        lo = sg["relay_level"] if use_relay else sg["level"]
        if dyn < lo:
            dyn = lo
        stat = draw(st.integers(lo, dyn))
        # a relay whose parameter is declared P may be handed a P2 (subclass) value: inside the relay the parameter's static type
        # is still P, so the overload taking P must run even when one taking P2 exists
        sub = use_relay and "P" in sg["params"] and draw(st.booleans())
        calls.append({"sig": i, "dyn": dyn, "stat": stat, "relay": use_relay, "sub": sub})
    # some levels are generic classes (type parameter E, unused by the overloads): their method tables are built by the
    # separate instantiation path of the run time
    gen = [draw(st.integers(0, 2)) == 0 for _ in range(depth)]
    return {"kind": "overload", "depth": depth, "sigs": sigs, "calls": calls, "generic": gen}


def _ov_label(level, params):
    return f"K{level}.m({','.join(params)})"


def overload_program(case):
    gen = case.get("generic") or [False] * case["depth"]
    out = ["class P { public constructor() -> P { return this; } }", "class Q { public constructor() -> Q { return this; } }",
           "class P2 extends P { public constructor() -> P2 { super(); return this; } }"]

    def tname(lv):  # the type as written in main
        return f"K{lv}" + ("<int>" if gen[lv] else "")

    for lv in range(case["depth"]):
        self_t = f"K{lv}" + ("<E>" if gen[lv] else "")
        head = f"class {self_t}"
        if lv:
            head += f" extends K{lv - 1}" + (("<E>" if gen[lv] else "<int>") if gen[lv - 1] else "")
        body = [f"public constructor() -> {self_t} {{ " + ("super(); " if lv else "") + "return this; }"]
        for i, sg in enumerate(case["sigs"]):
            plist = ", ".join(f"{t} p{k}" for k, t in enumerate(sg["params"]))
            if sg["level"] == lv:
                kw = "virtual " if sg["virtual"] else ""
                body.append(f"public {kw}function m({plist}) -> int {{ echo(\"{_ov_label(lv, sg['params'])}\"); return {100 * i + lv}; }}")
            if sg["override"] == lv:
                body.append(f"public override function m({plist}) -> int {{ echo(\"{_ov_label(lv, sg['params'])}\"); return {100 * i + lv}; }}")
            if sg["relay"] is not None and sg["relay_level"] == lv:
                recv = "this." if sg["relay"] == "this" else ""
                args = ", ".join(f"p{k}" for k in range(len(sg["params"])))
                body.append(f"public function r{i}({plist}) -> int {{ return {recv}m({args}); }}")
        out.append(head + " {\n    " + "\n    ".join(body) + "\n}")
    main = [f"{t} {v} = {init};" for t, (v, init) in OV_VARS.items()]
    for n, c in enumerate(case["calls"]):
        sg = case["sigs"][c["sig"]]
        args = ", ".join(("vp2" if (c.get("sub") and t == "P") else OV_VARS[t][0]) for t in sg["params"])
        name = f"r{c['sig']}" if c["relay"] else "m"
        # a generic instantiation converts to no other type in the analyser (recorded finding generic-base-args): a reference
        # to an object of a generic class is declared with exactly that type; base-typed dispatch then goes through relays
        stat = c["dyn"] if (gen[c["dyn"]] or gen[c["stat"]]) else c["stat"]
        main.append(f"{tname(stat)} o{n} = new {tname(c['dyn'])}();")
        main.append(f"echo(o{n}.{name}({args}));")
    return "\n".join(out) + "\nfunction main() -> void {\n    " + "\n    ".join(main) + "\n}\n"


def overload_expected(case):
    out = []
    for c in case["calls"]:
        sg = case["sigs"][c["sig"]]
        lvl = sg["override"] if (sg["override"] is not None and sg["override"] <= c["dyn"]) else sg["level"]
        out += [_ov_label(lvl, sg["params"]), str(100 * c["sig"] + lvl)]
    return out


# ------------------------------------------------------------------ widening overloads (seeded change C08-a4)
# Two-parameter overloads over {int, long} on a method and on constructors, called with int / long ARGUMENTS that need the
# documented int -> long widening.  Only calls with a parameter-wise unique most specific applicable overload are generated
# (the others are the undocumented region named in the module docstring).  The analyser's choice (static types) must run.

W_SIGS = [("int", "int"), ("int", "long"), ("long", "int"), ("long", "long")]


def _w_pick(sigs, args):
    le = lambda a, b: a == b or (a == "int" and b == "long")
    app = [sg for sg in sigs if all(le(a, t) for a, t in zip(args, sg))]
    best = [c for c in app if all(all(le(x, y) for x, y in zip(c, d)) for d in app)]
    return best[0] if len(best) == 1 else None


@st.composite
def widen_case(draw):
    sigs = draw(st.lists(st.sampled_from(W_SIGS), min_size=2, max_size=4, unique=True))
    csigs = draw(st.lists(st.sampled_from(W_SIGS), min_size=2, max_size=4, unique=True))
    calls = []
    for _ in range(draw(st.integers(2, 6))):
        args = (draw(st.sampled_from(["int", "long"])), draw(st.sampled_from(["int", "long"])))
        ctor = draw(st.booleans())
        if _w_pick(csigs if ctor else sigs, args) is not None:
            calls.append({"args": list(args), "ctor": ctor, "lit": draw(st.booleans())})
    return {"kind": "widen", "sigs": [list(x) for x in sigs], "csigs": [list(x) for x in csigs], "calls": calls,
            "virtual": draw(st.booleans())}


def widen_program(case):
    kw = "virtual " if case["virtual"] else ""
    body = [f"public constructor({a} a, {b} b) -> W {{ echo(\"W({a},{b})\"); return this; }}" for a, b in case["csigs"]]
    body += [f"public {kw}function m({a} a, {b} b) -> int {{ echo(\"m({a},{b})\"); return 1; }}" for a, b in case["sigs"]]
    first = case["csigs"][0]
    mk = ", ".join("1" if t == "int" else "1L" for t in first)
    main = ["int vi = 7;", "long vl = 8L;", f"W w = new W({mk});"]
    for n, c in enumerate(case["calls"]):
        args = ", ".join((("3" if t == "int" else "4L") if c["lit"] else ("vi" if t == "int" else "vl")) for t in c["args"])
        main.append(f"W c{n} = new W({args});" if c["ctor"] else f"echo(w.m({args}));")
    return "class W {\n    " + "\n    ".join(body) + "\n}\nfunction main() -> void {\n    " + "\n    ".join(main) + "\n}\n"


def widen_expected(case):
    out = ["W(" + ",".join(case["csigs"][0]) + ")"]
    for c in case["calls"]:
        if c["ctor"]:
            out.append("W(" + ",".join(_w_pick([tuple(x) for x in case["csigs"]], c["args"])) + ")")
        else:
            out += ["m(" + ",".join(_w_pick([tuple(x) for x in case["sigs"]], c["args"])) + ")", "1"]
    return out


class C08(Check):
    prop = "C08"
    rule = ("class programs: hierarchies (depth<=4), tracing field initialisers, constructors with explicit/implicit super, "
            "virtual/override/plain methods incl. super.m() and bare calls, overload sets, static fields (also via derived names), "
            "destructors, free functions taking objects, main with constructions / calls / field updates / aliases / destroys / "
            "scopes. non-trivial = hierarchy depth >= 2 and >= 1 of {override called through a base-typed reference, overload set, "
            "alias-delayed destructor, super call}; distinct = SHA-1 of the program")
    assumptions = ["pbt/ref_class.py encodes the documented object model", "numeric tokens compared with rel. tolerance 1e-5"]
    floors = {"__nontrivial__": (600, 12000), "override": (400, 8000), "dtor": (300, 6000)}

    def classify(self, case, why=None):
        if isinstance(case, dict) and case.get("kind") == "generic" and case.get("typed_super") and isinstance(why, dict) \
                and "no accessible base constructor matches" in str(why.get("why")):
            return "generic-base-args"
        return None

    def overload_run(self, case, sc, stats=None):
        want = overload_expected(case)
        src = overload_program(case)
        r = progrun.run_cli(self.drv, sc, src)
        if r.proc.timeout:
            return None
        if stats is not None:
            kinds = {tuple(sg["params"]) for sg in case["sigs"]}
            same_arity = any(a != b and len(a) == len(b) for a in kinds for b in kinds)
            stats.record(case, same_arity and len(case["calls"]) >= 2,
                         tags=["overload_family"] + (["overload_generic_level"] if any(case.get("generic") or []) else []) + (["overload_override"] if any(sg["override"] is not None for sg in case["sigs"]) else [])
                         + (["overload_relay"] if any(c["relay"] for c in case["calls"]) else [])
                         + (["relay_gets_subclass_value"] if any(c.get("sub") for c in case["calls"]) else []),
                         sample={"source": src, "expected": want} if len(src) < 2600 else None)
        if r.diag and r.diag["cat"] in ("Lexical", "Parse", "Semantic"):
            return {"why": f"overload program rejected: {r.diag}", "source": src}
        if r.proc.crashed() or r.rc != 0:
            return {"why": f"overload program failed: rc={r.rc} {r.stderr_lines[-1:]}", "source": src, **r.proc.brief()}
        got = list(r.stdout_lines)
        if got != want:
            k = next((i for i, (a, b) in enumerate(zip(got, want)) if a != b), min(len(got), len(want)))
            return {"why": f"overload trace differs at line {k}: expected {want[k:k + 2]}, got {got[k:k + 2]}",
                    "expected": want, "got": got, "source": src}
        return None

    def generic_run(self, case, sc, stats=None):
        want = generic_expected(case)
        if want is None:
            return None
        src = generic_program(case)
        r = progrun.run_cli(self.drv, sc, src)
        if r.proc.timeout:
            return None
        if stats is not None:
            ng = sum(1 for c in case["levels"] if c["generic"])
            stats.record(case, ng >= 1 and len(case["levels"]) >= 3, tags=["generic_family"] + (["generic_with_inherited_dtor"] if any(
                c["generic"] and not c["dtor"] for c in case["levels"][1:]) and any(c["dtor"] for c in case["levels"]) else []),
                         sample={"source": src, "expected": want} if len(src) < 1800 else None)
        if r.diag and r.diag["cat"] in ("Lexical", "Parse", "Semantic"):
            return {"why": f"generic hierarchy program rejected: {r.diag}", "source": src}
        if r.proc.crashed() or r.rc != 0:
            return {"why": f"generic hierarchy program failed: rc={r.rc} {r.stderr_lines[-1:]}", "source": src, **r.proc.brief()}
        got, want = progrun.canon_dtor_runs(r.stdout_lines), progrun.canon_dtor_runs(want)
        if got != want:
            k = next((i for i, (a, b) in enumerate(zip(got, want)) if a != b), min(len(got), len(want)))
            return {"why": f"generic hierarchy trace differs at line {k}: expected {want[k:k + 3]}, got {got[k:k + 3]}",
                    "expected": want, "got": got, "source": src}
        return None

    def run_case(self, p, sc, stats=None):
        if p.get("kind") == "generic":
            return self.generic_run(p, sc, stats)
        if p.get("kind") == "overload":
            return self.overload_run(p, sc, stats)
        if p.get("kind") == "widen":
            src, want = widen_program(p), widen_expected(p)
            r = progrun.run_cli(self.drv, sc, src)
            if r.proc.timeout:
                return None
            if stats is not None:
                stats.record(p, any("long" in sg and a != list(sg) for c in p["calls"] for a in [c["args"]]
                                    for sg in [_w_pick([tuple(x) for x in (p["csigs"] if c["ctor"] else p["sigs"])], a)]),
                             tags=["widening_overload_family"])
            got = list(r.stdout_lines)
            if r.proc.crashed() or r.rc != 0 or got != want:
                return {"why": f"widening overload program: rc={r.rc} {r.stderr_lines[-1:]}; expected {want}, got {got}", "source": src}
            return None
        try:
            ref = ref_class.run_reference(p)
        except ref_classic.Undocumented:
            if stats is not None:
                stats.count("discarded_undocumented")
            return None
        src = genclass.render(p)
        r = progrun.run_cli(self.drv, sc, src)
        if r.proc.timeout:
            if stats is not None:
                stats.inconclusive += 1
            return None
        if stats is not None:
            f = features(p)
            nt = "depth>=2" in f and bool(f & {"overloads", "super_call"} or ("override" in f and "base_typed_reference" in f) or
                                          ("alias" in f and "dtor" in f and "destroy" in f))
            stats.record(p, nt and ref[0] == "ok", sample={"source": src, "expected": ref} if len(src) < 2500 else None, tags=sorted(f))
        if r.diag and r.diag["cat"] in ("Lexical", "Parse", "Semantic"):
            return {"why": f"well-formed class program rejected: {r.diag}", "source": src}
        if r.proc.crashed() or r.rc not in (0, 1):
            return {"why": "interpreter died", "source": src, **r.proc.brief()}
        if ref[0] == "ok":
            if r.rc != 0:
                return {"why": f"reference completes, the run failed: {r.stderr_lines[-1:]}", "source": src, "expected": ref[1]}
            got, want = progrun.canon_dtor_runs(r.stdout_lines), progrun.canon_dtor_runs(ref[1])
            if not progrun.outputs_equal(got, want):
                k = next((i for i, (a, b) in enumerate(zip(got, want)) if not progrun.lines_equal(a, b)), min(len(want), len(got)))
                return {"why": f"trace differs at line {k}: expected {want[k:k + 3]}, got {got[k:k + 3]}",
                        "expected": want, "got": got, "source": src}
        else:
            if r.rc != 1 or r.error_kind() != ref[1]:
                return {"why": f"reference raises {ref[1]!r}, got rc={r.rc} {r.stderr_lines[-1:]}", "source": src}
        return None

    def oracle(self, case):
        with Scratch("c08") as sc:
            return self.run_case(case, sc)

    def search(self, tier, seed):
        return run_workers(_worker, seed, tier=tier, check=self)


def _worker(widx, wseed, tier, check):
    stats = Stats()
    failures = []
    with Scratch("c08") as sc:
        def prop(case, stats):
            why = check.run_case(case, sc, stats)
            if why is not None:
                raise Failure(why)
        f = hyp_search(genclass.class_program(), prop, wseed, 250 if tier == "quick" else 5000, stats)
        if f:
            failures.append(f)
        f = hyp_search(generic_case(), prop, common.derive_seed(wseed, "generic"), 120 if tier == "quick" else 3000, stats)
        if f:
            failures.append(f)
        f = hyp_search(overload_case(), prop, common.derive_seed(wseed, "overload"), 120 if tier == "quick" else 3000, stats)
        if f:
            failures.append(f)
        f = hyp_search(widen_case(), prop, common.derive_seed(wseed, "widen"), 30 if tier == "quick" else 600, stats)
        if f:
            failures.append(f)
    return {"stats": stats.export(), "failures": failures}


if __name__ == "__main__":
    sys.exit(C08().main(sys.argv[1:]))
