"""C08 — object model: construction order, dispatch, overloads and generics as documented.

Generator: `classes` profile (pbt/genclass.py).  Oracle: pbt/ref_class.py predicts the complete echo trace (constructors,
field initialisers, methods and destructors all trace through T.tr).  Compared through the real CLI: exit status, echoed
lines (numeric tokens numerically), or the runtime error kind.
Kept out because undocumented: overload sets in which "most specific" is not unique parameter-wise; reference cycles;
destructor-bearing objects held in fields; temporaries of destructor-bearing classes.
"""
import sys

from .. import common, genclass, genprog, progrun, ref_class, ref_classic
from ..common import Check, Failure, Scratch, Stats, hyp_search, run_workers


def features(p):
    feats = set()
    classes = {c["name"]: c for c in p["classes"]}
    depth = {}
    for c in p["classes"]:
        d, b = 1, c.get("base")
        while b:
            d += 1
            b = classes[b].get("base")
        depth[c["name"]] = d
    if max(depth.values()) >= 2:
        feats.add("depth>=2")
    main = next(f for f in p["funcs"] if f["name"] == "main")
    decl_types = {}

    def fs(s):
        if s["k"] == "decl" and s["t"] in classes and s.get("init") is not None:
            decl_types[s["name"]] = s["t"]
            if s["init"]["k"] == "new" and s["init"]["cls"] != s["t"]:
                feats.add("base_typed_reference")
            if s["init"]["k"] == "var":
                feats.add("alias")
        if s["k"] == "destroy":
            feats.add("destroy")

    def fe(e):
        if e["k"] == "mcall" and not e.get("static"):
            feats.add("method_call")
            if e["obj"] == "super":
                feats.add("super_call")
            if e["obj"] is None:
                feats.add("bare_call")

    for f in p["funcs"]:
        genprog.walk_stmts(f["body"], fs, fe)
    for c in p["classes"]:
        names = [m["name"] for m in c["methods"]]
        if len(names) != len(set(names)):
            feats.add("overloads")
        if any(m["kind"] == "override" for m in c["methods"]):
            feats.add("override")
        if c.get("dtor"):
            feats.add("dtor")
        for m in c["methods"]:
            genprog.walk_stmts(m["body"], fs, fe)
    return feats


class C08(Check):
    prop = "C08"
    rule = ("class programs: hierarchies (depth<=4), tracing field initialisers, constructors with explicit/implicit super, "
            "virtual/override/plain methods incl. super.m() and bare calls, overload sets, static fields (also via derived names), "
            "destructors, free functions taking objects, main with constructions / calls / field updates / aliases / destroys / "
            "scopes. non-trivial = hierarchy depth >= 2 and >= 1 of {override called through a base-typed reference, overload set, "
            "alias-delayed destructor, super call}; distinct = SHA-1 of the program")
    assumptions = ["pbt/ref_class.py encodes the documented object model", "numeric tokens compared with rel. tolerance 1e-5"]
    floors = {"__nontrivial__": (600, 12000), "override": (400, 8000), "dtor": (300, 6000)}

    def run_case(self, p, sc, stats=None):
        try:
            ref = ref_class.run_reference(p)
        except ref_classic.Undocumented:
            if stats is not None:
                stats.count("discarded_undocumented")
            return None
        src = genclass.render(p)
        r = progrun.run_cli(self.drv, sc, src)
        if r.proc.timeout:
            if stats is not None:
                stats.inconclusive += 1
            return None
        if stats is not None:
            f = features(p)
            nt = "depth>=2" in f and bool(f & {"overloads", "super_call"} or ("override" in f and "base_typed_reference" in f) or
                                          ("alias" in f and "dtor" in f and "destroy" in f))
            stats.record(p, nt and ref[0] == "ok", sample={"source": src, "expected": ref} if len(src) < 2500 else None, tags=sorted(f))
        if r.diag and r.diag["cat"] in ("Lexical", "Parse", "Semantic"):
            return {"why": f"well-formed class program rejected: {r.diag}", "source": src}
        if r.proc.crashed() or r.rc not in (0, 1):
            return {"why": "interpreter died", "source": src, **r.proc.brief()}
        if ref[0] == "ok":
            if r.rc != 0:
                return {"why": f"reference completes, the run failed: {r.stderr_lines[-1:]}", "source": src, "expected": ref[1]}
            got, want = progrun.canon_dtor_runs(r.stdout_lines), progrun.canon_dtor_runs(ref[1])
            if not progrun.outputs_equal(got, want):
                k = next((i for i, (a, b) in enumerate(zip(got, want)) if not progrun.lines_equal(a, b)), min(len(want), len(got)))
                return {"why": f"trace differs at line {k}: expected {want[k:k + 3]}, got {got[k:k + 3]}",
                        "expected": want, "got": got, "source": src}
        else:
            if r.rc != 1 or r.error_kind() != ref[1]:
                return {"why": f"reference raises {ref[1]!r}, got rc={r.rc} {r.stderr_lines[-1:]}", "source": src}
        return None

    def oracle(self, case):
        with Scratch("c08") as sc:
            return self.run_case(case, sc)

    def search(self, tier, seed):
        return run_workers(_worker, seed, tier=tier, check=self)


def _worker(widx, wseed, tier, check):
    stats = Stats()
    failures = []
    with Scratch("c08") as sc:
        def prop(case, stats):
            why = check.run_case(case, sc, stats)
            if why is not None:
                raise Failure(why)
        f = hyp_search(genclass.class_program(), prop, wseed, 250 if tier == "quick" else 5000, stats)
        if f:
            failures.append(f)
    return {"stats": stats.export(), "failures": failures}


if __name__ == "__main__":
    sys.exit(C08().main(sys.argv[1:]))
