"""C10 — acceptance and behaviour do not depend on top-level declaration order (metamorphic).

A program from the `classic` (functions calling each other WITH arguments) or `classes` profile (bases,
generics with generic bases, statics, functions used by methods) and, optionally, one injected semantic
violation, is rendered under several permutations of its top-level function and class declarations
(all permutations when <= 4 declarations, else sampled, always including the reverse order).
A third family (gb_case) instantiates bounded generic classes in member signatures with classes declared anywhere.
A second family (rt_case) uses functions of assorted return types - in other functions and in class methods, well-typed and
ill-typed - in ways whose checking needs the callee's return type, and permutes those declarations.
Oracle: accepted/rejected and the diagnostic CATEGORY are identical across permutations; when accepted
the exit status and stdout are identical.
"""
import itertools
import sys

from hypothesis import strategies as st

from .. import common, genprog, progrun
from ..common import Check, Failure, Scratch, Stats, hyp_search, run_workers

try:
    from .. import genclass
except ImportError:  # classes profile not built yet
    genclass = None


def decl_list(p):
    return [("class", c["name"]) for c in p.get("classes", [])] + [("fn", f["name"]) for f in p["funcs"]]


def depends_moved(p, order):
    """True if the permutation places a declaration before something it depends on: callee after a call with
    >= 1 argument, base after derived, generic base after use."""
    decls = decl_list(p)
    pos = {}
    for newi, oldi in enumerate(order):
        pos[decls[oldi]] = newi
    moved = False
    fpos = {f["name"]: pos[("fn", f["name"])] for f in p["funcs"]}

    def scan_calls(body, me):
        found = []

        def fe(e):
            if e["k"] == "call" and e.get("args") and e["f"] in fpos and fpos[e["f"]] > me:
                found.append(1)

        genprog.walk_stmts(body, lambda s: None, fe)
        return bool(found)

    for f in p["funcs"]:
        if scan_calls(f["body"], fpos[f["name"]]):
            moved = True
    for c in p.get("classes", []):
        b = c.get("base")
        if b and ("class", b) in pos and pos[("class", b)] > pos[("class", c["name"])]:
            moved = True
        for dep in c.get("uses", []):
            if ("class", dep) in pos and pos[("class", dep)] > pos[("class", c["name"])]:
                moved = True
            if ("fn", dep) in pos and pos[("fn", dep)] > pos[("class", c["name"])]:
                moved = True
    return moved


@st.composite
def perm_case(draw, profile):
    if profile == "classic" or genclass is None:
        p = draw(genprog.classic_program(min_funcs=1, max_funcs=4))
    else:
        p = draw(genclass.class_program())
    n = len(decl_list(p))
    ident = list(range(n))
    if n <= 4:
        perms = [list(x) for x in itertools.permutations(ident)]
    else:
        perms = [ident, ident[::-1]] + [list(draw(st.permutations(ident))) for _ in range(4)]
    return {"prog": p, "perms": perms}


# ------------------------------------------------------------------ return-type dependence family
# Functions with assorted return types are USED (in other functions and in class methods) in ways whose checking needs the
# callee's return type: typed declarations, arithmetic, member access on the result, overload selection, conditions, returns.
# Well-typed and ill-typed uses are both generated on purpose: the oracle is order-independence, not acceptance.

RT_TYPES = {"int": "7", "long": "8L", "float": "1.5f", "string": '"s"', "boolean": "true", "bit": "1b", "Cn": "new Cn(3)"}
RT_USES = [
    "echo({f});",
    "int v{u} = {f}; echo(v{u});",
    "long v{u} = {f}; echo(v{u});",
    "string v{u} = {f}; echo(v{u});",
    "float v{u} = {f}; echo(v{u});",
    "boolean v{u} = {f}; echo(v{u});",
    "bit v{u} = {f}; echo(v{u});",
    "Cn v{u} = {f}; echo(v{u}.n);",
    "echo({f} + 1);",
    "echo({f} * 2);",
    "echo(-{f});",
    "echo(!{f});",
    "echo({f}.bump());",
    "echo({f}.n);",
    "Cn p{u} = new Cn(0); p{u}.show({f});",
    "if ({f}) {{ echo(\"t\"); }}",
    "echo(twice({f}));",
    "int[] a{u} = {{1, 2, 3}}; echo(a{u}[{f}]);",
    "echo({f} == 7);",
    "echo({f} + \"x\");",
]
RT_CLASS = ("class Cn {\n    public int n;\n    public constructor(int s) -> Cn { this.n = s; return this; }\n"
            "    public function bump() -> int { this.n = this.n + 1; return this.n; }\n"
            "    public function show(int a) -> void { echo(\"show(int)\"); }\n"
            "    public function show(string a) -> void { echo(\"show(string)\"); }\n"
            "    public function show(float a) -> void { echo(\"show(float)\"); }\n}")


@st.composite
def rt_case(draw):
    nf = draw(st.integers(1, 3))
    decls = [{"name": "Cn", "text": RT_CLASS}, {"name": "twice", "text": "function twice(int a) -> int { return a * 2; }"}]
    fns = []
    for i in range(nf):
        t = draw(st.sampled_from(sorted(RT_TYPES)))
        fns.append((f"f{i}", t))
        decls.append({"name": f"f{i}", "text": f"function f{i}(int a) -> {t} {{ return {RT_TYPES[t]}; }}"})
    deps = []
    u = 0
    nu = draw(st.integers(1, 3))
    users = []
    for j in range(nu):
        body = []
        rett = draw(st.sampled_from(["void", "void", "int", "string", "Cn"]))
        for _ in range(draw(st.integers(1, 3))):
            fname, _t = draw(st.sampled_from(fns))
            u += 1
            body.append(draw(st.sampled_from(RT_USES)).format(f=f"{fname}({u})", u=u))
            deps.append((f"u{j}", fname))
        if rett != "void":
            fname, _t = draw(st.sampled_from(fns))
            body.append(f"return {fname}(0);")
            deps.append((f"u{j}", fname))
        in_class = draw(st.integers(0, 2)) == 0
        if in_class:
            decls.append({"name": f"u{j}", "text": f"class U{j} {{\n    public constructor() -> U{j} {{ return this; }}\n"
                                                   f"    public function run() -> {rett} {{ " + " ".join(body) + " }\n}"})
            users.append(f"U{j} w{j} = new U{j}(); " + (f"w{j}.run();" if rett == "void" else f"echo(w{j}.run());"))
        else:
            decls.append({"name": f"u{j}", "text": f"function u{j}() -> {rett} {{ " + " ".join(body) + " }"})
            users.append(f"u{j}();" if rett == "void" else f"echo(u{j}());")
    decls.append({"name": "main", "text": "function main() -> void { " + " ".join(users) + " }"})
    n = len(decls)
    ident = list(range(n))
    perms = [ident, ident[::-1]] + [list(draw(st.permutations(ident))) for _ in range(4)]
    return {"kind": "rt", "decls": decls, "deps": deps, "perms": perms}


# ------------------------------------------------------------------ bounded-generics family
# A small hierarchy, generic classes with bounds, and classes / functions whose member SIGNATURES (fields, parameters, return
# types, bounds) instantiate them with classes that may be declared anywhere.  Satisfied and violated bounds are both drawn.

GB_HIER = ["Base0", "Mid0", "Leaf0", "Other0"]


@st.composite
def gb_case(draw):
    decls = [{"name": "Base0", "text": "class Base0 { public int tag = 1; public constructor() -> Base0 { return this; } }"},
             {"name": "Mid0", "text": "class Mid0 extends Base0 { public constructor() -> Mid0 { super(); return this; } }"},
             {"name": "Leaf0", "text": "class Leaf0 extends Mid0 { public constructor() -> Leaf0 { super(); return this; } }"},
             {"name": "Other0", "text": "class Other0 { public int tag = 9; public constructor() -> Other0 { return this; } }"}]
    bound = draw(st.sampled_from(["Base0", "Mid0", "Leaf0"]))
    decls.append({"name": "G", "text": f"class G<T extends {bound}> {{ public T item; public constructor(T x) -> G<T> {{ this.item = x; return this; }} "
                                       f"public function get() -> T {{ return this.item; }} }}"})
    two = draw(st.booleans())
    if two:
        b2 = draw(st.sampled_from(["Base0", "Mid0"]))
        decls.append({"name": "G2", "text": f"class G2<K, V extends {b2}> {{ public K key; public V val; public constructor(K k, V v) -> G2<K, V> "
                                            f"{{ this.key = k; this.val = v; return this; }} }}"})
    deps = []
    users = []
    for j in range(draw(st.integers(1, 3))):
        arg = draw(st.sampled_from(GB_HIER))
        form = draw(st.sampled_from(["field", "param", "ret", "ctor_param", "fn_ret", "fn_param", "bound"] + (["field2"] if two else [])))
        inst = f"G<{arg}>"
        mk = f"new G<{arg}>(new {arg}())"
        name = f"U{j}"
        if form == "field":
            text = f"class {name} {{ public {inst} g; public constructor() -> {name} {{ this.g = {mk}; return this; }} public function t() -> int {{ return this.g.get().tag; }} }}"
            use = f"{name} u{j} = new {name}(); echo(u{j}.t());"
        elif form == "field2":
            text = (f"class {name} {{ public G2<string, {arg}> g; public constructor() -> {name} {{ this.g = new G2<string, {arg}>(\"k\", new {arg}()); "
                    f"return this; }} public function t() -> int {{ return this.g.val.tag; }} }}")
            use = f"{name} u{j} = new {name}(); echo(u{j}.t());"
        elif form == "param":
            text = f"class {name} {{ public constructor() -> {name} {{ return this; }} public function t({inst} p) -> int {{ return p.get().tag; }} }}"
            use = f"{name} u{j} = new {name}(); echo(u{j}.t({mk}));"
        elif form == "ret":
            text = f"class {name} {{ public constructor() -> {name} {{ return this; }} public function mk() -> {inst} {{ return {mk}; }} }}"
            use = f"{name} u{j} = new {name}(); echo(u{j}.mk().get().tag);"
        elif form == "ctor_param":
            text = f"class {name} {{ public int t; public constructor({inst} p) -> {name} {{ this.t = p.get().tag; return this; }} }}"
            use = f"{name} u{j} = new {name}({mk}); echo(u{j}.t);"
        elif form == "fn_ret":
            text = f"function mk{j}() -> {inst} {{ return {mk}; }}"
            use = f"echo(mk{j}().get().tag);"
            name = f"mk{j}"
        elif form == "fn_param":
            text = f"function take{j}({inst} p) -> int {{ return p.get().tag; }}"
            use = f"echo(take{j}({mk}));"
            name = f"take{j}"
        else:  # a bound that is itself a later-declared class
            text = f"class {name}<W extends {arg}> {{ public W w; public constructor(W x) -> {name}<W> {{ this.w = x; return this; }} }}"
            use = f"{name}<{arg}> u{j} = new {name}<{arg}>(new {arg}()); echo(u{j}.w.tag);"
        decls.append({"name": name, "text": text})
        deps.append((name, arg))
        deps.append((name, "G"))
        users.append(use)
    # a generic class whose type parameter carries the name of an ordinary class (legal; inside the generic class the name
    # means the parameter, everywhere else the class), used by top-level code that needs the class's members: the analyser's
    # per-class state must not outlive the class that happens to be visited last (seeded change C10-a4)
    if draw(st.booleans()):
        decls.append({"name": "Tok0", "text": "class Tok0 { public int tag = 5; public constructor() -> Tok0 { return this; } "
                                              "public function more(int by) -> int { return this.tag + by; } }"})
        decls.append({"name": "Cell0", "text": "class Cell0<Tok0> { public Tok0 v; public constructor(Tok0 x) -> Cell0<Tok0> { this.v = x; return this; } "
                                               "public function get() -> Tok0 { return this.v; } }"})
        decls.append({"name": "tk0", "text": "function tk0(Tok0 a) -> int { return a.more(1) + a.tag; }"})
        users.append("Tok0 k0 = new Tok0(); Cell0<int> c0 = new Cell0<int>(35); echo(tk0(k0)); echo(k0.tag); echo(c0.get());")
        deps.append(("tk0", "Cell0"))
        deps.append(("main", "Cell0"))
        last = [i for i in range(len(decls)) if decls[i]["name"] != "Cell0"]
    else:
        last = None
    decls.append({"name": "main", "text": "function main() -> void { " + " ".join(users) + " }"})
    n = len(decls)
    ident = list(range(n))
    perms = [ident, ident[::-1]] + [list(draw(st.permutations(ident))) for _ in range(4)]
    if last is not None:
        k = [i for i in range(n) if decls[i]["name"] == "Cell0"][0]
        rest = list(draw(st.permutations([i for i in range(n) if i != k])))
        perms += [rest + [k], [k] + rest]  # the class with the colliding type parameter analysed last, and first
    return {"kind": "rt", "family": "bounded_generics", "decls": decls, "deps": deps, "perms": perms}


class C10(Check):
    prop = "C10"
    rule = ("programs with inter-function calls carrying arguments / class hierarchies; all (<=4 decls) or sampled permutations "
            "of the top-level declarations incl. the reverse order; non-trivial = some permutation moves a declaration before "
            "something it depends on (callee after a call with >=1 argument, base after derived, generic base after use) and the "
            "program is accepted in the original order; distinct = SHA-1 of (program, permutations)")
    assumptions = ["stdout/exit status/diagnostic category compared through the real CLI entry point"]
    floors = {"__nontrivial__": (300, 4000)}

    def observe(self, p, order, sc):
        src = genclass.render(p, order) if (genclass is not None and p.get("classes")) else genprog.render_program(p, order)
        r = progrun.run_cli(self.drv, sc, src)
        return src, r

    def rt_run(self, case, sc, stats=None):
        base = None
        nt = False
        names = [d["name"] for d in case["decls"]]
        for order in case["perms"]:
            src = "\n".join(case["decls"][i]["text"] for i in order) + "\n"
            r = progrun.run_cli(self.drv, sc, src)
            if r.proc.timeout:
                if stats is not None:
                    stats.inconclusive += 1
                return None
            if r.proc.crashed():
                return {"why": "interpreter died", "source": src, **r.proc.brief()}
            obs = {"rc": r.rc, "cat": r.diag["cat"] if r.diag else None, "out": r.stdout_lines if r.rc == 0 else None}
            if base is None:
                base = (src, obs)
                continue
            pos = {names[i]: k for k, i in enumerate(order)}
            if any(pos[a] < pos[b] for a, b in case["deps"]):
                nt = True
            if obs != base[1]:
                return {"why": "declaration order changed the outcome (" + case.get("family", "return_type") + " family)", "order": order,
                        "original": base[1], "permuted": obs, "diag": r.diag, "source_original": base[0], "source_permuted": src}
        if stats is not None:
            acc = base[1]["cat"] is None
            stats.record(case, nt, sample={"source": base[0], "perms": case["perms"][:2]} if len(base[0]) < 1500 else None,
                         tags=[case.get("family", "return_type") + "_family", "rt_accepted" if acc else "rt_rejected_in_every_order"])
        return None

    def run_case(self, case, sc, stats=None):
        if case.get("kind") == "rt":
            return self.rt_run(case, sc, stats)
        p = case["prog"]
        if p.get("classes"):
            # termination filter: generated method calls may recurse without bound through virtual dispatch; the reference
            # model discards those (and anything else it does not define) before the implementation is run
            from .. import ref_class, ref_classic
            try:
                ref_class.run_reference(p)
            except ref_classic.Undocumented:
                if stats is not None:
                    stats.count("discarded_by_reference_filter")
                return None
        base = None
        nt = False
        for order in case["perms"]:
            src, r = self.observe(p, order, sc)
            if r.proc.timeout:
                if stats is not None:
                    stats.inconclusive += 1
                return None
            if r.proc.crashed():
                return {"why": "interpreter died", "source": src, **r.proc.brief()}
            obs = {"rc": r.rc, "cat": r.diag["cat"] if r.diag else None,
                   "out": r.stdout_lines if r.rc == 0 else None}
            if r.diag and r.diag["cat"] == "Runtime":
                obs["msg"] = r.error_kind()
            if base is None:
                base = (src, obs)
            else:
                if depends_moved(p, order):
                    nt = True
                if obs != base[1]:
                    return {"why": "declaration order changed the outcome", "order": order, "original": base[1],
                            "permuted": obs, "diag": r.diag, "source_original": base[0], "source_permuted": src}
        if stats is not None:
            acc = base[1]["cat"] in (None, "Runtime")
            tags = ["accepted" if acc else "rejected_in_every_order"]
            stats.record(case, nt and acc, sample={"source": base[0], "perms": case["perms"][:3]} if len(base[0]) < 1500 else None,
                         tags=tags + (["dependency_moved"] if nt else []))
        return None

    def oracle(self, case):
        with Scratch("c10") as sc:
            return self.run_case(case, sc)

    def search(self, tier, seed):
        return run_workers(_worker, seed, tier=tier, check=self)


def _worker(widx, wseed, tier, check):
    stats = Stats()
    failures = []
    quick = tier == "quick"
    with Scratch("c10") as sc:
        def prop(case, stats):
            why = check.run_case(case, sc, stats)
            if why is not None:
                raise Failure(why)
        profiles = ["classic"] + (["classes"] if genclass is not None else [])
        for prof in profiles:
            f = hyp_search(perm_case(prof), prop, common.derive_seed(wseed, prof), 120 if quick else 1500, stats)
            if f:
                failures.append(f)
        f = hyp_search(rt_case(), prop, common.derive_seed(wseed, "rt"), 80 if quick else 1200, stats)
        if f:
            failures.append(f)
        f = hyp_search(gb_case(), prop, common.derive_seed(wseed, "gb"), 60 if quick else 800, stats)
        if f:
            failures.append(f)
    return {"stats": stats.export(), "failures": failures}


if __name__ == "__main__":
    sys.exit(C10().main(sys.argv[1:]))
