"""C10 — acceptance and behaviour do not depend on top-level declaration order (metamorphic).

A program from the `classic` (functions calling each other WITH arguments) or `classes` profile (bases,
generics with generic bases, statics, functions used by methods) and, optionally, one injected semantic
violation, is rendered under several permutations of its top-level function and class declarations
(all permutations when <= 4 declarations, else sampled, always including the reverse order).
Oracle: accepted/rejected and the diagnostic CATEGORY are identical across permutations; when accepted
the exit status and stdout are identical.
"""
import itertools
import sys

from hypothesis import strategies as st

from .. import common, genprog, progrun
from ..common import Check, Failure, Scratch, Stats, hyp_search, run_workers

try:
    from .. import genclass
except ImportError:  # classes profile not built yet
    genclass = None


def decl_list(p):
    return [("class", c["name"]) for c in p.get("classes", [])] + [("fn", f["name"]) for f in p["funcs"]]


def depends_moved(p, order):
    """True if the permutation places a declaration before something it depends on: callee after a call with
    >= 1 argument, base after derived, generic base after use."""
    decls = decl_list(p)
    pos = {}
    for newi, oldi in enumerate(order):
        pos[decls[oldi]] = newi
    moved = False
    fpos = {f["name"]: pos[("fn", f["name"])] for f in p["funcs"]}

    def scan_calls(body, me):
        found = []

        def fe(e):
            if e["k"] == "call" and e.get("args") and e["f"] in fpos and fpos[e["f"]] > me:
                found.append(1)

        genprog.walk_stmts(body, lambda s: None, fe)
        return bool(found)

    for f in p["funcs"]:
        if scan_calls(f["body"], fpos[f["name"]]):
            moved = True
    for c in p.get("classes", []):
        b = c.get("base")
        if b and ("class", b) in pos and pos[("class", b)] > pos[("class", c["name"])]:
            moved = True
        for dep in c.get("uses", []):
            if ("class", dep) in pos and pos[("class", dep)] > pos[("class", c["name"])]:
                moved = True
            if ("fn", dep) in pos and pos[("fn", dep)] > pos[("class", c["name"])]:
                moved = True
    return moved


@st.composite
def perm_case(draw, profile):
    if profile == "classic" or genclass is None:
        p = draw(genprog.classic_program(min_funcs=1, max_funcs=4))
    else:
        p = draw(genclass.class_program())
    n = len(decl_list(p))
    ident = list(range(n))
    if n <= 4:
        perms = [list(x) for x in itertools.permutations(ident)]
    else:
        perms = [ident, ident[::-1]] + [list(draw(st.permutations(ident))) for _ in range(4)]
    return {"prog": p, "perms": perms}


class C10(Check):
    prop = "C10"
    rule = ("programs with inter-function calls carrying arguments / class hierarchies; all (<=4 decls) or sampled permutations "
            "of the top-level declarations incl. the reverse order; non-trivial = some permutation moves a declaration before "
            "something it depends on (callee after a call with >=1 argument, base after derived, generic base after use) and the "
            "program is accepted in the original order; distinct = SHA-1 of (program, permutations)")
    assumptions = ["stdout/exit status/diagnostic category compared through the real CLI entry point"]
    floors = {"__nontrivial__": (300, 4000)}

    def observe(self, p, order, sc):
        src = genclass.render(p, order) if (genclass is not None and p.get("classes")) else genprog.render_program(p, order)
        r = progrun.run_cli(self.drv, sc, src)
        return src, r

    def run_case(self, case, sc, stats=None):
        p = case["prog"]
        if p.get("classes"):
            # termination filter: generated method calls may recurse without bound through virtual dispatch; the reference
            # model discards those (and anything else it does not define) before the implementation is run
            from .. import ref_class, ref_classic
            try:
                ref_class.run_reference(p)
            except ref_classic.Undocumented:
                if stats is not None:
                    stats.count("discarded_by_reference_filter")
                return None
        base = None
        nt = False
        for order in case["perms"]:
            src, r = self.observe(p, order, sc)
            if r.proc.timeout:
                if stats is not None:
                    stats.inconclusive += 1
                return None
            if r.proc.crashed():
                return {"why": "interpreter died", "source": src, **r.proc.brief()}
            obs = {"rc": r.rc, "cat": r.diag["cat"] if r.diag else None,
                   "out": r.stdout_lines if r.rc == 0 else None}
            if r.diag and r.diag["cat"] == "Runtime":
                obs["msg"] = r.error_kind()
            if base is None:
                base = (src, obs)
            else:
                if depends_moved(p, order):
                    nt = True
                if obs != base[1]:
                    return {"why": "declaration order changed the outcome", "order": order, "original": base[1],
                            "permuted": obs, "diag": r.diag, "source_original": base[0], "source_permuted": src}
        if stats is not None:
            acc = base[1]["cat"] in (None, "Runtime")
            tags = ["accepted" if acc else "rejected_in_every_order"]
            stats.record(case, nt and acc, sample={"source": base[0], "perms": case["perms"][:3]} if len(base[0]) < 1500 else None,
                         tags=tags + (["dependency_moved"] if nt else []))
        return None

    def oracle(self, case):
        with Scratch("c10") as sc:
            return self.run_case(case, sc)

    def search(self, tier, seed):
        return run_workers(_worker, seed, tier=tier, check=self)


def _worker(widx, wseed, tier, check):
    stats = Stats()
    failures = []
    quick = tier == "quick"
    with Scratch("c10") as sc:
        def prop(case, stats):
            why = check.run_case(case, sc, stats)
            if why is not None:
                raise Failure(why)
        profiles = ["classic"] + (["classes"] if genclass is not None else [])
        for prof in profiles:
            f = hyp_search(perm_case(prof), prop, common.derive_seed(wseed, prof), 120 if quick else 2500, stats)
            if f:
                failures.append(f)
    return {"stats": stats.export(), "failures": failures}


if __name__ == "__main__":
    sys.exit(C10().main(sys.argv[1:]))
