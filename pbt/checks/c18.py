"""C18 — shots are isolated: an N-shot run equals N independent fresh runs (metamorphic).

One process loads and analyses the program once and executes it N times exactly as the CLI does (a fresh RuntimeEvaluator
per shot, per-shot RNG seeds s_0..s_{N-1}); N fresh processes each load, analyse and execute once with seed s_k.
Oracle: per shot, echo lines, tracked table, status/diagnostic and the emitted QASM are identical; additionally analysing
the program twice before running changes nothing.
Programs are chosen to DEPEND on per-run state: static counters (object ids come from one), lazily instantiated generics with
static fields, static (final) fields whose initialisers measure a qubit or read a counter, `final int`-sized arrays, objects owning qubits (free list), measured flags, tracked counts, allocation order.
"""
import sys

from hypothesis import strategies as st

from .. import common, genclass, genprog, progrun, qprog
from ..common import Check, Failure, Scratch, Stats, derive_seed, hyp_search, run_workers

STATEFUL = """class Box<T> {
    public T v;
    public static int made = 0;
    public constructor(T v) -> Box<T> { this.v = v; made = made + 1; return this; }
    public function get() -> T { return this.v; }
    public function count() -> int { return made; }
}
class LabeledBox<T> extends Box<T> {
    public string label;
    public constructor(string l, T v) -> LabeledBox<T> { super(v); this.label = l; return this; }
}
static class Tally { public static int hits = 0; public static function bump() -> int { hits = hits + 1; return hits; } }
static class Dice {
    public static int rolls = 0;
    public static function flip() -> bit { qubit dq; h(dq); rolls = rolls + 1; return measure dq; }
    public static function next() -> int { rolls = rolls + 1; return rolls; }
}
static class Config {
    public static final bit coin = Dice.flip();
    public static final int serial = Dice.next();
    public static int plain = Dice.next();
}
function stateful(int k) -> int {
    echo(Config.coin); echo(Config.serial); echo(Config.plain); echo(Dice.rolls);
    final int n = 3;
    int[n] arr;
    arr[k % 3] = k;
    Box<int> bi = new Box<int>(k);
    Box<string> bs = new Box<string>("s");
    Box<int> b2 = new Box<>(k + 1);
    LabeledBox<int> lb = new LabeledBox<int>("w", k);
    echo(bi.count()); echo(bs.count()); echo(b2.get()); echo(lb.label); echo(lb.count()); echo(Tally.bump());
    return arr[0] + arr[1] + arr[2];
}
class Probe {
    @tracked public qubit q;
    public int tag;
    public constructor(int t) -> Probe { this.tag = t; x(this.q); return this; }
    public function read() -> bit { return measure this.q; }
    public destructor() -> void { echo("probe released " + this.tag); }
}
class RingNode {
    public RingNode peer;
    public Probe probe;
    public constructor() -> RingNode { this.peer = null; this.probe = null; return this; }
}
function ring(int k) -> bit {
    RingNode first = new RingNode();
    RingNode cur = first;
    for (int i = 0; i < k; i = i + 1) {
        RingNode nx = new RingNode();
        cur.peer = nx;
        cur = nx;
    }
    cur.peer = first;
    cur.probe = new Probe(k);
    return cur.probe.read();
}
"""


@st.composite
def shot_case(draw):
    kind = draw(st.sampled_from(["quantum", "quantum", "classes", "classic"]))
    calls = "".join(f"    echo(stateful({draw(st.integers(0, 9))}));\n" for _ in range(draw(st.integers(1, 3))))
    # garbage reference cycles that own (through a non-cyclic member) a destructor and a tracked qubit: they are only
    # finalised by a cycle collection - during the shot under allocation pressure, or at its end
    rings = draw(st.lists(st.integers(0, 20), max_size=2))
    calls += "".join(f"    echo(ring({k}));\n" for k in rings)
    if kind == "quantum":
        p = draw(qprog.qprogram(max_q=6, nstmts=12, tracked=True))
        src = qprog.render(p)
    elif kind == "classes":
        src = genclass.render(draw(genclass.class_program()))
    else:
        src = genprog.render_program(draw(genprog.classic_program()))
    # splice the stateful prelude in front and its calls at the start of main
    k = src.rfind("function main() -> void {")
    src = STATEFUL + src[:k] + "function main() -> void {\n" + calls + src[k + len("function main() -> void {") + 1:]
    return {"kind": kind, "src": src, "n": draw(st.integers(2, 5)), "seed": draw(st.integers(0, 2**31 - 1)),
            "twice": draw(st.booleans()), "cli": draw(st.booleans()), "rings": len(rings)}


class C18(Check):
    prop = "C18"
    rule = ("programs of the quantum / classes / classic profiles with a stateful prelude (static counters, generic instantiations "
            "with statics incl. diamond inference and a generic base, const-sized arrays), N in 2..5 seeded shots in one process vs "
            "N fresh processes. non-trivial = N >= 2 and the program uses qubits owned by objects, tracked variables or class "
            "statics (the prelude always contributes statics, generics and a const-sized array); distinct = SHA-1 of the case")
    assumptions = ["per-shot RNG seeds are the same function of (base seed, shot index) in both arrangements"]
    floors = {"__nontrivial__": (400, 8000)}

    def shots(self, src, sc, args):
        r = progrun.run_api(self.drv, sc, src, args + ["--dump", "echo,tracked,qasm"])
        if r.timeout:
            return None
        if r.crashed() or r.rc != 0:
            return {"died": r.brief()}
        objs = r.json_lines()
        if objs and objs[0].get("phase") == "front":
            return {"front": objs[0]}
        return [{k: o.get(k) for k in ("ok", "cat", "msg", "echo", "tracked", "qasm")} for o in objs if o.get("phase") == "shot"]

    def run_case(self, case, sc, stats=None):
        src, n = case["src"], case["n"]
        # "cli": every evaluator is configured exactly as the shot loop of cli.cpp does (QASM log kept and unmeasured-qubit
        # warnings enabled for the last shot only); otherwise all shots are configured like a single run, which makes the
        # QASM of every shot comparable.  Collections are driven by allocation pressure only (no 50 ms timer) in both
        # arrangements so that the moment a garbage cycle is finalised is a function of the program.
        cli = bool(case.get("cli"))
        multi = self.shots(src, sc, ["--gc", "natural", "--seed", str(case["seed"]), "--shots", str(n)] + (["--cli-shots"] if cli else []) +
                           (["--analyse-twice"] if case["twice"] else []))
        if multi is None:
            if stats is not None:
                stats.inconclusive += 1
            return None
        if isinstance(multi, dict):
            if "front" in multi:
                if stats is not None:
                    stats.count("rejected_by_front_end")
                return None
            if "AddressSanitizer: stack-overflow" in str(multi["died"].get("stderr_tail", "")):
                # unbounded recursion in the generated program: not a matter of shot isolation
                if stats is not None:
                    stats.count("deep_recursion_out_of_scope")
                return None
            return {"why": "interpreter died in the multi-shot arrangement", "source": src, **multi["died"]}
        if len(multi) != n:
            return {"why": f"{len(multi)} shot records for {n} shots", "source": src}
        for k in range(n):
            one = self.shots(src, sc, ["--gc", "natural", "--seed", str(case["seed"]), "--shots", "1", "--shot0", str(k)])
            if one is None:
                return None
            if isinstance(one, dict):
                if "AddressSanitizer: stack-overflow" in str(one.get("died", {}).get("stderr_tail", "")):
                    return None
                return {"why": "interpreter died in a fresh run", "source": src, **one.get("died", {})}
            if cli and k < n - 1:
                one[0]["qasm"] = multi[k]["qasm"] = None  # the CLI keeps no QASM log for these shots
            if one[0] != multi[k]:
                diff = [f for f in one[0] if one[0][f] != multi[k][f]]
                return {"why": f"shot {k} of the {n}-shot run differs from a fresh run with the same seed in {diff}",
                        "fresh": {f: one[0][f] for f in diff}, "multi": {f: multi[k][f] for f in diff}, "source": src}
        if stats is not None:
            nt = n >= 2
            stats.record(case, nt, tags=[case["kind"]] + (["analyse_twice"] if case["twice"] else []) + (["cli_shot_config"] if case.get("cli") else [])
                         + (["garbage_cycle"] if case.get("rings") else []),
                         sample={"main": src[src.rfind("function main"):][:500], "n": n} if case["kind"] == "quantum" else None)
        return None

    def oracle(self, case):
        with Scratch("c18") as sc:
            return self.run_case(case, sc)

    def search(self, tier, seed):
        return run_workers(_worker, seed, tier=tier, check=self)


def _worker(widx, wseed, tier, check):
    stats = Stats()
    failures = []
    with Scratch("c18") as sc:
        def prop(case, stats):
            why = check.run_case(case, sc, stats)
            if why is not None:
                raise Failure(why)
        f = hyp_search(shot_case(), prop, wseed, 120 if tier == "quick" else 2500, stats)
        if f:
            failures.append(f)
    return {"stats": stats.export(), "failures": failures}


if __name__ == "__main__":
    sys.exit(C18().main(sys.argv[1:]))
