"""C01 — built-in gates act as their defining unitaries on exactly the addressed qubits.

(a) deterministic enumeration: for n = 1..N, every gate kind, every target / ordered cx pair, a fixed
    angle list, every computational basis state -> the whole 2^n x 2^n matrix of the implementation,
    compared with the numpy Kronecker-product reference up to ONE global phase per matrix.
(b) random: entangling preparation circuit, then one gate under test; psi_before is read from the
    implementation so errors do not compound; psi_after must equal U_ref psi_before up to a phase.
(c) program level (pbt/qprog.py): Bloch programs without measurement, gates reached through functions,
    methods, qubit[] elements and object fields; final amplitudes equal the numpy run of the op list.
"""
import math
import sys

import numpy as np
from hypothesis import strategies as st

from .. import ref_quantum as rq
from .. import simdrv
from ..common import Check, Failure, Scratch, Stats, derive_seed, hyp_search, run_workers

ENUM_ANGLES = [0.0, math.pi / 2, -math.pi / 2, math.pi, -math.pi, 2 * math.pi, 1e-9, 0.1, -2.5, 3.0, 100.25]


def enum_gates(n):
    gs = []
    for q in range(n):
        for g in ("h", "x", "y", "z"):
            gs.append((g, q))
        for g in ("rx", "ry", "rz"):
            for t in ENUM_ANGLES:
                gs.append((g, q, t))
    for c in range(n):
        for t in range(n):
            if c != t:
                gs.append(("cx", c, t))
    return gs


def matrix_equal_up_to_phase(M, U, tol=1e-9):
    k = np.unravel_index(int(np.argmax(np.abs(U))), U.shape)
    if abs(M[k]) < 1e-12:
        return False, float(np.max(np.abs(M - U)))
    ph = M[k] / U[k]
    ph = ph / abs(ph)
    err = float(np.max(np.abs(M - ph * U)))
    return err <= tol, err


@st.composite
def random_case(draw, max_n):
    n = draw(st.integers(1, max_n))
    prep = draw(st.lists(simdrv.gate_op(n), min_size=0, max_size=3 * n + 4))
    # seed entanglement on purpose
    if n >= 2 and draw(st.booleans()):
        a = draw(st.integers(0, n - 1))
        b = draw(st.integers(0, n - 1).filter(lambda v: v != a))
        prep = [("h", a), ("cx", a, b)] + prep
    gate = draw(simdrv.gate_op(n))
    return {"kind": "random", "n": n, "prep": [list(p) for p in prep], "gate": list(gate)}


class C01(Check):
    prop = "C01"
    rule = ("(a) exhaustive enumeration gate x target(pair) x angle-list x basis state for n<=N (whole matrix, one global "
            "phase); (b) random entangling preparation + one gate (n<=6/8); (c) generated Bloch programs without "
            "measurement. non-trivial = the pre-gate state has both target=0 and target=1 components non-zero on >=2 basis "
            "pairs, or n>=3 with a non-adjacent or reversed cx pair; for (a) every matrix with n>=2; distinct = SHA-1 of the case")
    assumptions = ["numpy reference (Kronecker products, little-endian qubit k = bit k) is correct",
                   "amplitudes are read through the BLOCH_VERIF accessor, which only exposes m_state"]
    floors = {"__nontrivial__": (500, 5000), "enum_matrices": (400, 1000), "cx_nonadjacent_or_reversed": (50, 500)}

    # ---- (a)
    def enum_one(self, n, gates, sc, stats=None):
        ops = []
        for g in gates:
            for b in range(1 << n):
                ops.append(("new",))
                ops += [("alloc",)] * n
                ops += [("x", q) for q in range(n) if (b >> q) & 1]
                ops.append(("dump",))
                ops.append(tuple(g))
                ops.append(("dump",))
        r = simdrv.run_script(self.drv, sc, ops, timeout=300, name=f"enum{n}.txt")
        if r.crashed() or r.rc != 0 or r.timeout:
            return {"why": "simulator process died during enumeration", **r.brief()}
        dumps = [o for o in r.json_lines() if "state" in o]
        errs = [o for o in r.json_lines() if o.get("ok") is False]
        if errs:
            return {"why": "simulator raised on a valid gate", "obs": errs[0]}
        if len(dumps) != 2 * len(gates) * (1 << n):
            return {"why": f"expected {2 * len(gates) * (1 << n)} dumps, got {len(dumps)}"}
        N = 1 << n
        k = 0
        for g in gates:
            M = np.zeros((N, N), dtype=complex)
            for b in range(N):
                before = rq.from_json(dumps[k]["state"])
                after = rq.from_json(dumps[k + 1]["state"])
                k += 2
                want = np.zeros(N, dtype=complex)
                want[b] = 1
                if len(before) != N or not np.array_equal(before, want):
                    return {"why": f"prepared basis state |{b}> of n={n} read back as {before.tolist()}"}
                M[:, b] = after
            U = rq.full_gate(n, g)
            ok, err = matrix_equal_up_to_phase(M, U)
            if stats is not None:
                case = {"kind": "enum", "n": n, "gate": list(g)}
                tags = ["enum_matrices"]
                if g[0] == "cx" and (abs(g[1] - g[2]) > 1 or g[1] > g[2]):
                    tags.append("cx_nonadjacent_or_reversed")
                stats.record(case, n >= 2, sample=case if g[0] == "cx" else None, tags=tags)
            if not ok:
                return {"why": f"matrix of {list(g)} on n={n} differs from U_ref (x) I by {err:.3g} (one global phase allowed)",
                        "gate": list(g), "n": n}
        return None

    # ---- (b)
    def random_oracle(self, case, sc, stats=None):
        n = case["n"]
        ops = [("new",)] + [("alloc",)] * n + [tuple(p) for p in case["prep"]] + [("dump",), tuple(case["gate"]), ("dump",)]
        r = simdrv.run_script(self.drv, sc, ops)
        if r.timeout:
            if stats is not None:
                stats.inconclusive += 1
            return None
        if r.crashed() or r.rc != 0:
            return {"why": "simulator process died", **r.brief()}
        objs = r.json_lines()
        errs = [o for o in objs if o.get("ok") is False]
        if errs:
            return {"why": "simulator raised on a valid gate", "obs": errs[0]}
        dumps = [o for o in objs if "state" in o]
        if len(dumps) != 2:
            return {"why": "missing dumps", **r.brief()}
        before = rq.from_json(dumps[0]["state"])
        after = rq.from_json(dumps[1]["state"])
        g = tuple(case["gate"])
        want = rq.apply(before, g)
        if stats is not None:
            tq = g[2] if g[0] == "cx" else g[1]
            idx = np.arange(len(before))
            lo = before[((idx >> tq) & 1) == 0]
            hi = before[((idx >> tq) & 1) == 1]
            pairs = int(np.sum((np.abs(lo) > 1e-9) & (np.abs(hi) > 1e-9)))
            cxrev = g[0] == "cx" and n >= 3 and (abs(g[1] - g[2]) > 1 or g[1] > g[2])
            tags = ["random"]
            if cxrev:
                tags.append("cx_nonadjacent_or_reversed")
            if pairs >= 2:
                tags.append("superposed_target")
            stats.record(case, pairs >= 2 or cxrev, sample=case, tags=tags)
        if len(after) != len(want):
            return {"why": "state length changed by a gate"}
        if abs(np.linalg.norm(after) - 1) > 1e-9:
            return {"why": f"norm after gate {np.linalg.norm(after)!r}"}
        if not rq.equal_up_to_phase(after, want, tol=1e-9):
            return {"why": f"gate {list(g)} on n={n}: psi_after != U_ref psi_before (fidelity {rq.fidelity(after, want):.12f})",
                    "before": dumps[0]["state"], "after": dumps[1]["state"]}
        return None

    def oracle(self, case):
        with Scratch("c01") as sc:
            if case["kind"] == "enum":
                return self.enum_one(case["n"], [tuple(case["gate"])], sc)
            if case["kind"] == "random":
                return self.random_oracle(case, sc)
            if case["kind"] == "program":
                from .. import qchecks
                return qchecks.c01_program_oracle(self, case, sc)
        return None

    def search(self, tier, seed):
        return run_workers(_worker, seed, tier=tier, check=self)


def _worker(widx, wseed, tier, check):
    stats = Stats()
    failures = []
    maxn_enum = 5 if tier == "quick" else 7
    with Scratch("c01") as sc:
        # (a): split the enumeration over workers
        for n in range(1, maxn_enum + 1):
            gates = enum_gates(n)
            mine = gates[widx::16]
            if not mine:
                continue
            why = check.enum_one(n, mine, sc, stats)
            if why is not None:
                g = why.get("gate")
                failures.append({"case": {"kind": "enum", "n": n, "gate": g} if g else {"kind": "enum", "n": n, "gate": list(mine[0])},
                                 "why": why})
                break
        # (b)
        def prop(case, stats):
            why = check.random_oracle(case, sc, stats)
            if why is not None:
                raise Failure(why)
        nb = 1200 if tier == "quick" else 25000
        f = hyp_search(random_case(6 if tier == "quick" else 8), prop, wseed, nb, stats)
        if f:
            failures.append(f)
        # (c)
        from .. import qchecks as qprog
        if True:
            f = qprog.c01_program_search(check, sc, derive_seed(wseed, "prog"), 150 if tier == "quick" else 2500, stats)
            if f:
                failures.append(f)
    return {"stats": stats.export(), "failures": failures}


if __name__ == "__main__":
    sys.exit(C01().main(sys.argv[1:]))
