"""C12 — running an accepted program never crashes the interpreter.

Generators: (1) edge programs built from templates around arithmetic extremes (int/long limits, / and % by 0 and -1,
out-of-range and non-finite casts, huge / negative computed indices, out-of-range literals), null receivers / fields /
arguments, runtime errors raised while objects with destructors are live (in functions, methods, constructors, field
initialisers and destructors), deep hierarchies with overloaded virtual methods, bounded recursion, qubit misuse; (2) the
classic / classes / quantum profiles as they are; (3) literal-level mutation of those programs towards the extremes.
Programs only have to be ACCEPTED by the front end (rejections are counted, not judged).
Oracle (through the real CLI entry point of an ASan/UBSan build): exit status 0 or 1; no signal; no sanitizer report; on
status 1 stderr is the stop banner followed by exactly one line `Runtime error( at Ln N, Col M)?: message`.  Anything else
(e.g. a bare 'stoi') is a raw exception surfacing.  Timeouts are inconclusive.
"""
import re
import sys

from hypothesis import strategies as st

from .. import common, genclass, genprog, progrun, qprog
from ..common import Check, Failure, Scratch, Stats, derive_seed, hyp_search, run_workers

RT_RE = re.compile(r"^Runtime error( at Ln \d+, Col \d+)?: .+$")

INT_X = ["2147483647", "(-2147483647 - 1)", "0", "-1", "1", "46341", "65536", "(2147483647 - 1)"]
LONG_X = ["9223372036854775807L", "(-9223372036854775807L - 1L)", "0L", "-1L", "1L", "4294967296L", "3037000500L"]
FLOAT_X = ["0.0f", "-0.0f", "1.0f", "3.4e5f" if False else "340000.0f", "99999999999999999999.0f", "(1.0f / 3.0f)", "0.5f",
           "(0.0f - 99999999999999999999.0f)"]
OPS = ["+", "-", "*", "/", "%"]


@st.composite
def int_expr(draw, depth=2):
    if depth == 0 or draw(st.integers(0, 2)) == 0:
        return draw(st.sampled_from(INT_X + ["xi", "yi"]))
    k = draw(st.integers(0, 5))
    if k <= 2:
        return f"({draw(int_expr(depth - 1))} {draw(st.sampled_from(OPS[:3] + ['%']))} {draw(int_expr(depth - 1))})"
    if k == 3:
        return f"(int) {draw(st.sampled_from(LONG_X + FLOAT_X + ['xl', 'xf']))}"
    if k == 4:
        return f"(-{draw(int_expr(depth - 1))})"
    return f"(int) ({draw(long_expr(depth - 1))})"


@st.composite
def long_expr(draw, depth=2):
    if depth == 0 or draw(st.integers(0, 2)) == 0:
        return draw(st.sampled_from(LONG_X + ["xl", "yl"]))
    k = draw(st.integers(0, 4))
    if k <= 2:
        return f"({draw(long_expr(depth - 1))} {draw(st.sampled_from(OPS[:3] + ['%', '%']))} {draw(st.one_of(long_expr(depth - 1), int_expr(depth - 1)))})"
    if k == 3:
        return f"(long) {draw(st.sampled_from(FLOAT_X + INT_X + ['xf']))}"
    return f"(-{draw(long_expr(depth - 1))})"


@st.composite
def float_expr(draw, depth=2):
    if depth == 0 or draw(st.integers(0, 2)) == 0:
        return draw(st.sampled_from(FLOAT_X + ["xf"]))
    return f"({draw(st.one_of(float_expr(depth - 1), int_expr(depth - 1), long_expr(depth - 1)))} {draw(st.sampled_from(['/', '/', '*', '+', '-']))} " \
           f"{draw(st.one_of(float_expr(depth - 1), int_expr(depth - 1), long_expr(depth - 1)))})"


EDGE_HEAD = """static class T { public static function tr(string s, int v) -> int { echo(s + v); return v; } }
class P {
    public int v;
    public P nxt;
    public int[] data;
    public constructor(int v) -> P { this.v = v; this.nxt = null; return this; }
    public virtual function get() -> int { return this.v; }
    public virtual function get(int k) -> int { return this.v + k; }
    public virtual function get(long k) -> long { return k; }
    public virtual function get(string s) -> string { return s; }
    public virtual function get(P o) -> int { return o.v; }
    public function boom(int d) -> int { return this.v / d > 0.5f ? 1 : 0; }
    public destructor() -> void { T.tr("~P:", this.v); }
}
class R extends P {
    public int w = T.tr("R.w=", 3);
    public constructor(int v) -> R { super(v); return this; }
    public override function get() -> int { return this.w; }
    public override function get(int k) -> int { return super.get(k) + 1; }
}
class S extends R {
    public constructor(int v) -> S { super(v); }
    public override function get(P o) -> int { return o.get() + 1; }
}
class U extends S { public constructor() -> U { super(7); } }
class W extends U { public constructor() -> W { super(); } public destructor() -> void { T.tr("~W:", 0); } }
class Bad {
    public int z;
    public constructor(int d) -> Bad { int[] a = {1, 2}; this.z = a[d]; }
}
class BadInit {
    public int q = 1 % (T.tr("zero", 0));
    public constructor() -> BadInit { }
}
class BadDtor {
    public int k;
    public constructor(int k) -> BadDtor { this.k = k; }
    public destructor() -> void { int[] a = {1}; echo(a[this.k]); }
}
function rec(int n) -> int { if (n <= 0) { return 0; } return 1 + rec(n - 1); }
function idx(int[] a, int i) -> int { return a[i]; }
function useP(P p) -> int { return p.get(); }
"""
# boom(): the ternary is a statement in Bloch; keep the class text valid:
EDGE_HEAD = EDGE_HEAD.replace("{ return this.v / d > 0.5f ? 1 : 0; }", "{ float r = this.v / d; return (int) r; }")

EDGE_STMTS = [
    "echo({i});", "echo({l});", "echo({f});", "int t{u} = {i}; echo(t{u});", "long t{u} = {l}; echo(t{u});",
    "float t{u} = {f}; echo((int) t{u}); echo((long) t{u});",
    "int[] a{u} = {{1, 2, 3}}; echo(a{u}[{i}]);", "int[] a{u} = {{1, 2, 3}}; a{u}[{i}] = 5;",
    "long[2] b{u}; b{u}[(int) {l}] = {l};", "echo(idx({{4, 5}}, {i}));" if False else "int[] c{u} = {{4, 5}}; echo(idx(c{u}, {i}));",
    "P p{u} = null; echo(p{u}.v);", "P p{u} = null; echo(p{u}.get());", "P p{u} = new P(1); echo(p{u}.nxt.v);",
    "P p{u} = new P(1); echo(p{u}.get(p{u}.nxt));", "P p{u} = new R(2); destroy p{u}; echo(p{u}.get());",
    "P p{u} = new W(); echo(p{u}.get()); echo(p{u}.get(2)); echo(p{u}.get(3L)); echo(p{u}.get(\"s\")); echo(p{u}.get(p{u}));",
    "P p{u} = new S(4); P q{u} = new P(5); echo(p{u}.boom({i}));", "P p{u} = new P(3); Bad b{u} = new Bad({i});",
    "P p{u} = new R(3); BadInit b{u} = new BadInit();", "BadDtor d{u} = new BadDtor({i}); destroy d{u}; echo(1);",
    "{{ BadDtor d{u} = new BadDtor(3); P keep{u} = new P(9); }} echo(2);",
    "echo(rec({r}));", "P p{u} = new P(1); echo(useP(p{u}.nxt));",
    "string s{u} = \"a\" + {l} + {f} + true; echo(s{u});", "bit bb{u} = (bit) {f}; echo(bb{u});",
    "int big{u} = 99999999999; echo(big{u});", "float hf{u} = 99999999999999999999999999999999999999999999.0f; echo(hf{u});",
    "long hl{u} = 99999999999999999999L; echo(hl{u});",
    "qubit q{u}; h(q{u}); measure q{u}; x(q{u});", "qubit[2] qr{u}; cx(qr{u}[0], qr{u}[{i}]);", "qubit q{u}; rx(q{u}, {f});",
    "P p{u} = new P(2); p{u}.data[0] = 1;", "P p{u} = new P(2); echo(p{u}.data);",
    "char ch{u} = 'a'; echo((int) ch{u}); echo((char) {i});" if False else "echo((float) {l});",
]


@st.composite
def edge_case(draw):
    n = draw(st.integers(1, 3))
    lines = ["int xi = 2147483647; int yi = (-2147483647 - 1); long xl = 9223372036854775807L; "
             "long yl = (-9223372036854775807L - 1L); float xf = 99999999999999999999.0f;"]
    for u in range(n):
        t = draw(st.sampled_from(EDGE_STMTS))
        lines.append(t.format(i=draw(int_expr()), l=draw(long_expr()), f=draw(float_expr()), u=u,
                                                   r=draw(st.sampled_from([0, 1, 50, 200]))))
    return {"kind": "edge", "src": EDGE_HEAD + "function main() -> void {\n    " + "\n    ".join(lines) + "\n}\n"}


# ------------------------------------------------------------------ array boundary family (validity known in closed form)
B_TYPES = {"int": ("1", "7"), "long": ("1L", "7L"), "float": ("1.5f", "7.5f"), "bit": ("1b", "0b"), "boolean": ("true", "false"),
           "string": ('"s"', '"t"'), "char": ("'c'", "'d'")}
B_HOLDERS = ["literal", "sized", "param", "field"]


@st.composite
def bounds_case(draw):
    t = draw(st.sampled_from(sorted(B_TYPES)))
    n = draw(st.integers(1, 5))
    idx = draw(st.sampled_from([-1, 0, n - 1, n, n, n + 1, 2147483647, -2147483647]))
    return {"kind": "bounds", "t": t, "n": n, "idx": idx, "holder": draw(st.sampled_from(B_HOLDERS)), "store": draw(st.booleans())}


def bounds_program(case):
    t, n, idx = case["t"], case["n"], case["idx"]
    e, v = B_TYPES[t]
    lit = "{" + ", ".join([e] * n) + "}"
    head = (f"class Hold {{ public {t}[] fld = {lit}; public constructor() -> Hold {{ return this; }} "
            f"public function put(int i, {t} v) -> void {{ fld[i] = v; }} public function at(int i) -> {t} {{ return fld[i]; }} }}\n"
            f"function putP({t}[] a, int i, {t} v) -> void {{ a[i] = v; }}\nfunction atP({t}[] a, int i) -> {t} {{ return a[i]; }}\n")
    k = f"int k = {idx};" if idx >= 0 else f"int k = 0 - {-idx};"
    h = case["holder"]
    if h == "sized":
        decl = f"{t}[{n}] a;"
    elif h == "field":
        decl = "Hold h = new Hold();"
    else:
        decl = f"{t}[] a = {lit};"
    if case["store"]:
        op = {"literal": f"a[k] = {v};", "sized": f"a[k] = {v};", "param": f"putP(a, k, {v});", "field": f"h.put(k, {v});"}[h]
    else:
        op = {"literal": "echo(a[k]);", "sized": "echo(a[k]);", "param": "echo(atP(a, k));", "field": "echo(h.at(k));"}[h]
    return head + f"function main() -> void {{ {k} {decl} {op} echo(\"done\"); }}\n"


LIT_RE = re.compile(r"(?<![\w.])(\d+)(L?)(?![\w.])")


@st.composite
def mutated_profile_case(draw):
    which = draw(st.sampled_from(["classic", "classes", "quantum"]))
    if which == "classic":
        src = genprog.render_program(draw(genprog.classic_program()))
    elif which == "classes":
        src = genclass.render(draw(genclass.class_program()))
    else:
        src = qprog.render(draw(qprog.qprogram(alias=True)))
    spots = [m for m in LIT_RE.finditer(src)]
    k = draw(st.integers(0, min(3, len(spots))))
    if k and spots:
        picks = sorted(draw(st.lists(st.integers(0, len(spots) - 1), min_size=k, max_size=k, unique=True)), reverse=True)
        for pi in picks:
            m = spots[pi]
            # small replacements for int literals (a recursion argument may be among them: depth stays bounded)
            # (and in quantum programs a register size: the qubit count stays bounded)
            rep = draw(st.sampled_from(["0", "1", "7", "31"] if which != "quantum" else ["0", "1", "2"])) if not m.group(2) else \
                draw(st.sampled_from(["0L", "9223372036854775807L", "4294967296L", "1L"]))
            src = src[:m.start()] + rep + src[m.end():]
    return {"kind": which, "src": src}


class C12(Check):
    prop = "C12"
    rule = ("edge-template programs (extreme arithmetic, indices, casts, literals; null references; errors raised inside "
            "functions/methods/constructors/field initialisers/destructors while destructor-bearing objects are live; 5-level "
            "hierarchy with 5 virtual overloads; recursion <= 200; qubit misuse) and literal-mutated programs of the three "
            "profiles; only accepted programs are judged. non-trivial = accepted and (edge template, or ended with a runtime "
            "error); distinct = SHA-1 of the source")
    assumptions = ["UBSan without signed-integer-overflow / pointer-overflow / float-cast-overflow (DESIGN.md 2.3)",
                   "child stack limit raised to 1 GiB so bounded recursion is not mistaken for a crash"]
    floors = {"__nontrivial__": (600, 20000), "runtime_error": (300, 8000), "edge": (600, 15000)}

    def bounds_run(self, case, sc, stats=None):
        src = bounds_program(case)
        valid = 0 <= case["idx"] < case["n"]
        r = progrun.run_cli(self.drv, sc, src)
        if r.proc.timeout:
            return None
        if stats is not None:
            stats.record({"s": src}, True, tags=["bounds_family", "bounds_valid" if valid else "bounds_invalid"] +
                         (["index_equals_length"] if case["idx"] == case["n"] else []), sample=None)
        if r.diag and r.diag["cat"] in ("Lexical", "Parse", "Semantic"):
            return {"why": f"array boundary program rejected: {r.diag}", "source": src}
        if r.proc.signal or r.proc.sanitizer or r.rc not in (0, 1):
            return {"why": "interpreter died / sanitizer report on an array access", "source": src, **r.proc.brief()}
        if valid and (r.rc != 0 or r.stdout_lines[-1:] != ["done"]):
            return {"why": f"in-range access (index {case['idx']}, length {case['n']}) failed: {r.stderr_lines[-1:]}", "source": src}
        if not valid and not (r.rc == 1 and any("out of bounds" in ln for ln in r.stderr_lines)):
            return {"why": f"index {case['idx']} on length {case['n']}: expected one 'out of bounds' runtime error, got rc={r.rc} "
                           f"{r.stderr_lines[-1:]} out={r.stdout_lines[-2:]}", "source": src}
        return None

    def run_case(self, case, sc, stats=None):
        if case.get("kind") == "bounds":
            return self.bounds_run(case, sc, stats)
        src = case["src"]
        r = progrun.run_cli(self.drv, sc, src)
        if r.proc.timeout:
            if stats is not None:
                stats.inconclusive += 1
                stats.count("timeout_" + case["kind"])
                if len(stats.samples) < 4:
                    stats.samples.append({"TIMEOUT": src[src.rfind("function main"):][:600]})
            return None
        front_reject = bool(r.diag and r.diag["cat"] in ("Lexical", "Parse", "Semantic")) and not r.proc.crashed()
        if stats is not None:
            tags = [case["kind"]] if not front_reject else ["rejected_by_front_end"]
            if r.rc == 1 and not front_reject:
                tags.append("runtime_error")
            stats.record({"s": src}, (not front_reject) and (case["kind"] in ("edge", "dispatch") or r.rc == 1), tags=tags,
                         sample={"main": src[src.rfind("function main"):], "rc": r.rc, "stderr": r.stderr_lines[-1:]} if case["kind"] == "edge" else None)
        if front_reject:
            return None
        if "AddressSanitizer: stack-overflow" in r.proc.err:
            # unbounded recursion in the generated/mutated program: outside the property's "bounded recursion depth"
            if stats is not None:
                stats.count("deep_recursion_out_of_scope")
            return None
        if r.proc.signal:
            return {"why": f"interpreter killed by signal {r.proc.signal}", "source": src, **r.proc.brief()}
        if r.proc.sanitizer:
            return {"why": "sanitizer report", "source": src, **r.proc.brief()}
        if r.rc not in (0, 1):
            return {"why": f"exit status {r.rc}", "source": src, **r.proc.brief()}
        if r.rc == 1:
            lines = [ln for ln in r.stderr_lines if not ln.startswith("[WARNING]") and not ln.startswith("[INFO]")]
            banner = [ln for ln in lines if "Stopping program execution" in ln]
            rest = [ln for ln in lines if ln not in banner]
            if len(banner) != 1 or len(rest) != 1 or not RT_RE.match(rest[0]):
                return {"why": f"stderr is not 'banner + one Runtime error line' but {lines[:4]}", "source": src}
        return None

    def oracle(self, case):
        with Scratch("c12") as sc:
            return self.run_case(case, sc)

    def search(self, tier, seed):
        return run_workers(_worker, seed, tier=tier, check=self)


def _worker(widx, wseed, tier, check):
    stats = Stats()
    failures = []
    quick = tier == "quick"
    with Scratch("c12") as sc:
        def prop(case, stats):
            why = check.run_case(case, sc, stats)
            if why is not None:
                raise Failure(why)
        # dispatch-heavy accepted programs from C08's small families (overload matrix over a chain with generic levels and
        # overrides; generic hierarchies with inherited destructors): here only "does not crash" is judged
        from . import c08
        ovl = c08.overload_case().map(lambda c: {"kind": "dispatch", "src": c08.overload_program(c)})
        gen = c08.generic_case().map(lambda c: {"kind": "dispatch", "src": c08.generic_program(c)})
        for strat, n, tag in ((edge_case(), 450 if quick else 12000, "edge"), (mutated_profile_case(), 120 if quick else 5000, "mut"),
                              (ovl, 80 if quick else 3000, "ovl"), (gen, 40 if quick else 1500, "gen"),
                              (bounds_case(), 100 if quick else 2500, "bounds")):
            f = hyp_search(strat, prop, derive_seed(wseed, tag), n, stats)
            if f:
                failures.append(f)
    return {"stats": stats.export(), "failures": failures}


if __name__ == "__main__":
    sys.exit(C12().main(sys.argv[1:]))
