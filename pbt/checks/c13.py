"""C13 — the front end is total: any input yields an AST or one categorised diagnostic.

Three engines, one oracle:
 (1) systematic enumeration over the seed corpus (programs embedded in /repo/tests, examples, library): every single-token
     deletion, truncation at every token boundary, replacement of every token by a rotating sample of the token alphabet
     (incl. huge integer literals), of every identifier by another identifier of the same program and of every base-class
     name by every class of the program, and insertions - run through BOTH the direct lexer->parser->analyser path and the
     ModuleLoader path (`verifdrv front`), 40 inputs per process;
 (2) Hypothesis: random multi-edit mutants and byte-level noise, plus multi-file trees with one mutated member;
 (3) coverage-guided libFuzzer campaign (harness/fuzz_front.cpp, oracle inside the target, ASan+UBSan, dictionary); every
     artifact is re-checked by the Python oracle before it is reported.
Oracle: terminates; accepted, or exactly one BlochError of category Lexical/Parse/Semantic; no other exception type; no
sanitizer report; the same analyser object afterwards accepts a fixed good program and rejects a fixed bad one; through
the real CLI: exit status 1 and exactly one categorised diagnostic line after the stop banner.
"""
import glob
import os
import shutil
import subprocess
import sys

from hypothesis import strategies as st

from .. import build as _build
from .. import common, progrun
from ..common import Check, Failure, Scratch, Stats, derive_seed, hyp_search, run_proc, run_workers
from .c15 import KEYWORDS, OPERATORS

SEED_DIR = os.path.join(common.CORPUS_DIR, "seeds")
ALPHABET = KEYWORDS + OPERATORS + ["x", "Foo", "main", "0", "1", "99999999999", "2147483648", "9223372036854775808L", "1L",
                                   "1.5f", "3f", "1b", '"s"', "'c'", "#", "<", ">", "T", "Object", "int[]", "@shots(99999999999)",
                                   "@quantum", "@tracked", "-1", "1e9"]
FRONT_CATS = ("Lexical", "Parse", "Semantic")
BATCH = 40


def load_seeds():
    out = []
    for p in sorted(glob.glob(os.path.join(SEED_DIR, "*.bloch"))):
        with open(p, "rb") as f:
            out.append((os.path.basename(p), f.read().decode("latin-1")))
    return out


def nesting_ok(src, limit=64):
    d = m = 0
    for c in src:
        if c in "([{<":
            d += 1
            m = max(m, d)
        elif c in ")]}>" and d > 0:
            d -= 1
    return m <= limit


class C13(Check):
    prop = "C13"
    rule = ("inputs: systematic single-token deletion/replacement/insertion/truncation of 274 seed programs (269 extracted from the repository's tests, examples and library, 5 written for generic classes), random multi-edit and "
            "byte mutants, multi-file trees with a mutated member, and a coverage-guided libFuzzer campaign; bounded to 4 KiB and "
            "bracket nesting 64. non-trivial = input not accepted and past the lexer (parser or analyser reached), or accepted and "
            "different from every seed; distinct = SHA-1 of the input text")
    assumptions = ["length <= 4 KiB and nesting <= 64 as the property's quantifier allows",
                   "a timeout counts only after three confirmations in isolation",
                   "libFuzzer campaigns are pinned approximately; the saved artifact is the reproducible unit and is re-checked by "
                   "the deterministic oracle"]
    floors = {"__nontrivial__": (8000, 150000), "fuzz_execs": (100000, 5000000), "cli_checked": (300, 3000)}

    def prepare(self):
        super().prepare()
        self.fuzzdir = _build.build("fuzz")
        self.seeds = load_seeds()
        self.seedset = {s for _, s in self.seeds}

    # ---------------------------------------------------------------- oracle on a batch of sources
    def judge(self, obs):
        if "rawexc" in obs:
            return f"raw exception {obs['rawexc']}: {obs.get('what')}"
        if not obs.get("ok") and obs.get("cat") not in FRONT_CATS:
            return f"diagnostic of category {obs.get('cat')}: {obs.get('msg')}"
        if obs.get("reuse") != "good:accept,bad:Semantic":
            return f"analyser unusable for the next program: {obs.get('reuse')}"
        return None

    def run_batch(self, srcs, sc, direct, stats=None):
        """Returns (index, why) of the first failing source or None."""
        names = []
        for i, s in enumerate(srcs):
            names.append(sc.write(f"m{i}.bloch", s.encode("latin-1")))
        r = run_proc([self.drv, "front"] + (["--direct"] if direct else []) + names, cwd=sc.dir, timeout=60)
        objs = r.json_lines()
        for i, o in enumerate(objs):
            why = self.judge(o)
            if why:
                return i, {"why": why, "direct": direct}
            if stats is not None and not direct:
                nt = (not o.get("ok") and o.get("cat") != "Lexical") or (o.get("ok") and srcs[i] not in self.seedset)
                tag = "accepted" if o.get("ok") else o.get("cat")
                stats.record({"src": srcs[i]}, nt, sample={"src": srcs[i], "result": tag} if len(srcs[i]) < 300 else None,
                             tags=[tag])
        if r.timeout or r.crashed() or r.rc != 0 or len(objs) != len(srcs):
            # find the culprit in isolation (timeouts confirmed 3x)
            k = len(objs)
            if k >= len(srcs):
                return None
            why = self.single(srcs[k], sc, direct)
            if why:
                return k, why
            return None
        return None

    def single(self, src, sc, direct):
        p = sc.write("one.bloch", src.encode("latin-1"))
        tries = 0
        while True:
            r = run_proc([self.drv, "front"] + (["--direct"] if direct else []) + [p], cwd=sc.dir, timeout=10)
            if r.timeout:
                tries += 1
                if tries >= 3:
                    return {"why": "front end did not terminate within 10 s (3 isolated attempts)", "direct": direct}
                continue
            break
        if r.crashed() or r.rc != 0:
            return {"why": "front end process died", "direct": direct, **r.brief()}
        objs = r.json_lines()
        if len(objs) != 1:
            return {"why": "no result", "direct": direct, **r.brief()}
        why = self.judge(objs[0])
        return {"why": why, "direct": direct} if why else None

    def cli_oracle(self, src, sc):
        r = progrun.run_cli(self.drv, sc, src, name="cliprog.bloch", timeout=20)
        if r.proc.timeout:
            return None
        if r.proc.crashed() or r.rc not in (0, 1):
            return {"why": "CLI died", **r.proc.brief()}
        if r.rc == 1 and (r.diag is None or r.diag["cat"] == "Runtime"):
            # the front end accepted the program; what happens while it RUNS is C12's subject, not C13's
            w = self.single(src, sc, False)
            if w is None:
                return None
        if r.rc == 1:
            lines = r.stderr_lines
            diags = [ln for ln in lines if progrun.DIAG_RE.match(ln)]
            banner = [ln for ln in lines if "Stopping program execution" in ln]
            others = [ln for ln in lines if ln not in diags and ln not in banner and not ln.startswith("[WARNING]") and
                      not ln.startswith("[INFO]")]
            if len(diags) != 1 or len(banner) != 1 or others:
                return {"why": f"CLI stderr is not 'banner + one categorised diagnostic': {lines[:4]}"}
        return None

    def oracle(self, case):
        with Scratch("c13") as sc:
            if case.get("tree"):
                return self.tree_oracle(case, sc)
            src = case["src"]
            for direct in (True, False):
                w = self.single(src, sc, direct)
                if w:
                    return w
            return self.cli_oracle(src, sc)

    def classify(self, case, why=None):
        return None

    # ---------------------------------------------------------------- multi-file trees with a mutated member
    def tree_oracle(self, case, sc, stats=None):
        base = os.path.join(sc.dir, "t")
        shutil.rmtree(base, ignore_errors=True)
        os.makedirs(os.path.join(base, "p"))
        with open(os.path.join(base, "p", "M.bloch"), "wb") as f:
            f.write(case["member"].encode("latin-1"))
        with open(os.path.join(base, "Main.bloch"), "w") as f:
            f.write(case["main"])
        r = run_proc([self.drv, "front", os.path.join(base, "Main.bloch")], cwd=base, timeout=20)
        if r.timeout:
            return None
        if r.crashed() or r.rc != 0:
            return {"why": "front end process died on a multi-file program", **r.brief()}
        objs = r.json_lines()
        if len(objs) != 1:
            return {"why": "no result", **r.brief()}
        if stats is not None:
            o = objs[0]
            stats.record(case, not o.get("ok") and o.get("cat") != "Lexical", tags=["tree"])
        why = self.judge(objs[0])
        return {"why": why} if why else None

    # ---------------------------------------------------------------- libFuzzer
    def fuzz(self, widx, wseed, seconds, sc, stats):
        corp = os.path.join(sc.dir, "corp")
        art = os.path.join(sc.dir, "art")
        os.makedirs(corp)
        os.makedirs(art)
        if widx % 2 == 0:  # half of the campaigns start from the seeds, half from an empty corpus
            for n, s in self.seeds:
                with open(os.path.join(corp, n), "wb") as f:
                    f.write(s.encode("latin-1"))
        dic = os.path.join(sc.dir, "dict.txt")
        with open(dic, "w") as f:
            for t in sorted(set(ALPHABET)):
                f.write('"' + t.replace("\\", "\\\\").replace('"', '\\"') + '"\n')
        cmd = [os.path.join(self.fuzzdir, "fuzz_front"), f"-max_total_time={seconds}", "-max_len=4096", "-timeout=10",
               f"-seed={wseed % (2**31 - 1) + 1}", f"-dict={dic}", f"-artifact_prefix={art}/", "-print_final_stats=1",
               "-rss_limit_mb=3000", corp]
        env = dict(common.ENV_BASE)
        env["ASAN_OPTIONS"] = "detect_leaks=0:abort_on_error=1"
        p = subprocess.run(cmd, stdout=subprocess.PIPE, stderr=subprocess.PIPE, env=env, timeout=seconds + 120)
        err = p.stderr.decode("latin-1")
        execs = 0
        for ln in err.splitlines():
            if ln.startswith("stat::number_of_executed_units:"):
                execs = int(ln.split()[-1])
        stats.count("fuzz_execs", execs)
        fails = []
        for a in sorted(glob.glob(os.path.join(art, "crash-*")) + glob.glob(os.path.join(art, "leak-*"))):
            with open(a, "rb") as f:
                src = f.read().decode("latin-1")
            case = {"src": src}
            w = self.oracle(case)
            if w:
                fails.append({"case": case, "why": w})
            else:
                stats.count("fuzz_artifact_not_confirmed")
        return fails

    def search(self, tier, seed):
        return run_workers(_worker, seed, tier=tier, check=self)


def tokens_of(check, src, sc):
    p = sc.write("tok.bloch", src.encode("latin-1"))
    r = run_proc([check.drv, "lex", p], timeout=20)
    objs = r.json_lines()
    if not objs or not objs[0].get("ok"):
        return None
    starts = [0]
    for i, ch in enumerate(src):
        if ch == "\n":
            starts.append(i + 1)
    spans = []
    for ty, text, line, col in objs[0]["tokens"][:-1]:
        off = starts[line - 1] + col - 1
        spans.append((off, off + len(text), ty))
    return spans


EXTREMES = {
    "IntegerLiteral": ["99999999999", "2147483648", "0", "-1"],
    "LongLiteral": ["9223372036854775808L", "99999999999999999999L"],
    "FloatLiteral": ["99999999999999999999999999999999999999999999.0f", "0.0f"],
    "BitLiteral": ["2b", "1"],
    "Identifier": ["main", "this", "super", "null", "int"],
    "StringLiteral": ['"', "''"],
}


def systematic(src, spans, rot):
    """All single-token deletions and truncations; per position one rotating replacement and insertion from the whole
    token alphabet plus the same-class extreme values (huge literals, reserved words for identifiers)."""
    out = []
    for i, (a, b, ty) in enumerate(spans):
        out.append(src[:a] + src[b:])
        out.append(src[:a])
        rep = ALPHABET[(rot + 7 * i) % len(ALPHABET)]
        out.append(src[:a] + rep + src[b:])
        rep2 = ALPHABET[(rot + 11 * i + 3) % len(ALPHABET)]
        out.append(src[:a] + rep2 + " " + src[a:])
        for x in EXTREMES.get(ty, []):
            out.append(src[:a] + x + src[b:])
    # name confusion inside one program: every identifier once replaced by another identifier of the SAME program (rotating),
    # and the name after `extends` by every class declared in the program (self-inheritance, cycles, a class hanging off a cycle)
    always = [src]  # the seed itself, and few structurally interesting mutants: run in every tier
    idents = sorted({src[a:b] for a, b, ty in spans if ty == "Identifier"})
    classes = sorted({src[spans[i + 1][0]:spans[i + 1][1]] for i, (a, b, ty) in enumerate(spans[:-1])
                      if src[a:b] == "class" and spans[i + 1][2] == "Identifier"})
    for i, (a, b, ty) in enumerate(spans):
        if ty != "Identifier":
            continue
        if len(idents) > 1:
            rep = idents[(rot + 5 * i) % len(idents)]
            if rep != src[a:b]:
                out.append(src[:a] + rep + src[b:])
        if i > 0 and src[spans[i - 1][0]:spans[i - 1][1]] == "extends":
            for c in classes:
                if c != src[a:b]:
                    always.append(src[:a] + c + src[b:])
    return always, out


@st.composite
def random_mutant(draw, seeds):
    name, src = draw(st.sampled_from(seeds))
    n = draw(st.integers(1, 4))
    for _ in range(n):
        if not src:
            break
        k = draw(st.integers(0, 4))
        i = draw(st.integers(0, len(src)))
        j = min(len(src), i + draw(st.integers(0, 12)))
        if k == 0:
            src = src[:i] + src[j:]
        elif k == 1:
            src = src[:i] + draw(st.sampled_from(ALPHABET)) + src[j:]
        elif k == 2:
            src = src[:i] + " " + draw(st.sampled_from(ALPHABET)) + " " + src[i:]
        elif k == 3:
            src = src[:i] + draw(st.text(alphabet=st.characters(min_codepoint=0, max_codepoint=255), max_size=4)) + src[j:]
        else:
            a = draw(st.integers(0, len(src)))
            b = min(len(src), a + draw(st.integers(0, 30)))
            src = src[:i] + src[a:b] + src[i:]
    return {"src": src[:4096]}


@st.composite
def tree_mutant(draw, seeds):
    m = draw(random_mutant(seeds))["src"]
    pk = draw(st.sampled_from(["package p;\n", "package p;\n", "", "package q;\n"]))
    main = draw(st.sampled_from(["import p.M;\nfunction main() -> void { echo(1); }\n",
                                 "import p.*;\nfunction main() -> void { echo(1); }\n",
                                 "import p.M;\nimport p.M;\nfunction main() -> void { }\n"]))
    return {"tree": True, "member": pk + m, "main": main}


def _worker(widx, wseed, tier, check):
    stats = Stats()
    failures = []
    quick = tier == "quick"
    with Scratch("c13") as sc:
        # (1) systematic enumeration, seeds split over workers; quick tier covers a rotating third of the positions
        mine = check.seeds[widx::16]
        rot = wseed % len(ALPHABET)
        stop = False
        for name, src in mine:
            spans = tokens_of(check, src, sc)
            if not spans:
                continue
            always, muts = systematic(src, spans, rot)
            muts = [m for m in muts if len(m) <= 4096 and nesting_ok(m)]
            if quick:
                muts = muts[(wseed % 3)::3]
            muts = [m for m in always if len(m) <= 4096] + muts
            for k in range(0, len(muts), BATCH):
                chunk = muts[k:k + BATCH]
                for direct in (False, True):
                    bad = check.run_batch(chunk, sc, direct, stats)
                    if bad:
                        failures.append({"case": {"src": chunk[bad[0]]}, "why": bad[1]})
                        stop = True
                        break
                if stop:
                    break
            if stop:
                break
            # the real CLI on a few mutants of every seed
            for m in muts[:: max(1, len(muts) // (3 if quick else 12))][:12]:
                stats.count("cli_checked")
                w = check.cli_oracle(m, sc)
                if w:
                    failures.append({"case": {"src": m}, "why": w})
                    stop = True
                    break
            if stop:
                break

        # (2) Hypothesis random mutants and multi-file trees
        def prop(case, stats):
            if case.get("tree"):
                w = check.tree_oracle(case, sc, stats)
            else:
                if not nesting_ok(case["src"]):
                    return
                bad = check.run_batch([case["src"]], sc, False, stats) or check.run_batch([case["src"]], sc, True)
                w = bad[1] if bad else None
            if w:
                raise Failure(w)
        f = hyp_search(random_mutant(check.seeds), prop, derive_seed(wseed, "rnd"), 300 if quick else 8000, stats)
        if f:
            failures.append(f)
        f = hyp_search(tree_mutant(check.seeds), prop, derive_seed(wseed, "tree"), 60 if quick else 1500, stats)
        if f:
            failures.append(f)
        # (3) libFuzzer
        if widx < (12 if quick else 16):
            failures += check.fuzz(widx, wseed, 35 if quick else 900, sc, stats)
    return {"stats": stats.export(), "failures": failures}


if __name__ == "__main__":
    sys.exit(C13().main(sys.argv[1:]))
