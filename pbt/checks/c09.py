"""C09 — scoping is lexical: a callee never sees or changes its caller's locals (metamorphic alpha-renaming).

A program from the `classic` or `classes` profile (methods use bare field names and this.f) is run twice: as generated, and
after consistently renaming ONE local variable or parameter v of ONE function / method / constructor F to a name w that is
fresh, or - preferably - equal to a local/parameter of another function, or to a field name of another class.
Capture-freedom precondition (what makes the renaming meaning-preserving under lexical scoping): w is not declared anywhere
in F, is not a field or static visible in F's class hierarchy, and is not a function, method, class, keyword or built-in name.
Oracle: stdout, exit status and diagnostic (with the two names masked) are identical.
"""
import copy
import re
import sys

from hypothesis import strategies as st

from .. import common, genclass, genprog, progrun
from ..common import Check, Failure, Scratch, Stats, derive_seed, hyp_search, run_workers

RESERVED = set(genprog.KEYWORDS) | set(genprog.GATES) | {"oid", "T", "Sel", "tr", "next", "pick"} | set(genclass.METHOD_NAMES) | \
    set(genclass.CLASS_NAMES) | set(genprog.FUNC_NAMES) | {"use", "show", "main"}


def bodies(p):
    """All bodies F: (kind, owner class or None, index path, params, statements)."""
    out = []
    for i, f in enumerate(p["funcs"]):
        out.append({"where": ["funcs", i], "cls": None, "params": f["params"], "body": f["body"], "name": f["name"]})
    for ci, c in enumerate(p.get("classes", [])):
        if c["name"] == "T":
            continue
        for mi, m in enumerate(c["methods"]):
            out.append({"where": ["classes", ci, "methods", mi], "cls": c["name"], "params": m["params"], "body": m["body"],
                        "name": f"{c['name']}.{m['name']}"})
        for ki, ct in enumerate(c["ctors"]):
            out.append({"where": ["classes", ci, "ctors", ki], "cls": c["name"], "params": ct["params"], "body": ct["body"],
                        "name": f"{c['name']}.ctor", "super_args": ct.get("super_args")})
    return out


def declared_names(F):
    names = [pn for _, pn in F["params"]]

    def fs(s):
        if s["k"] == "decl":
            names.append(s["name"])
        if s["k"] == "for" and s["init"]["k"] == "decl":
            pass  # visited by walk_stmts

    genprog.walk_stmts(F["body"], fs, lambda e: None)
    return names


def _decls(F):
    out = []

    def fs(s):
        if s["k"] == "decl":
            out.append(s)

    genprog.walk_stmts(F["body"], fs, lambda e: None)
    return out


def hierarchy_names(p, cls):
    if cls is None:
        return set()
    out = set()
    for c in genclass.ancestors(p["classes"], cls):
        out |= {f["name"] for f in c["fields"]} | {m["name"] for m in c["methods"]}
    # fields of derived classes are not visible in F, but keep them out as well (bare names in overrides)
    for c in p["classes"]:
        if genclass.is_subclass(p["classes"], c["name"], cls):
            out |= {f["name"] for f in c["fields"]}
    return out


def rename_in(node, v, w):
    """In-place consistent renaming of the variable v to w inside one body (statements / expressions)."""
    if isinstance(node, list):
        for x in node:
            rename_in(x, v, w)
        return
    if not isinstance(node, dict):
        return
    k = node.get("k")
    if k in ("decl", "assign", "aset", "idx", "post", "destroy") and node.get("name") == v:
        node["name"] = w
    if k == "var" and node.get("name") == v and not node.get("via_this"):
        node["name"] = w
    for key, val in node.items():
        if isinstance(val, (dict, list)):
            rename_in(val, v, w)


def apply_rename(p, where, v, w):
    q = copy.deepcopy(p)
    node = q
    for k in where:
        node = node[k]
    node["params"] = [[t, (w if n == v else n)] for t, n in node["params"]]
    rename_in(node["body"], v, w)
    if node.get("super_args"):
        rename_in(node["super_args"], v, w)
    return q


@st.composite
def rename_case(draw, profile):
    if profile == "classic":
        p = draw(genprog.classic_program(min_funcs=1, max_funcs=4))
    else:
        p = draw(genclass.class_program())
    Fs = [F for F in bodies(p) if declared_names(F)]
    if not Fs:
        return {"skip": True}
    # a constructor parameter that carries the name of a field of its class (the `this.x = x` idiom) is the most delicate
    # thing to rename: everywhere outside the constructor body the bare name still means the field
    shadowing = []
    for G in Fs:
        if G["cls"] and G["name"].endswith(".ctor"):
            fnames = {f["name"] for c in genclass.ancestors(p["classes"], G["cls"]) for f in c["fields"]}
            shadowing += [(G, pn) for _, pn in G["params"] if pn in fnames]
    hot = []
    for G, pn in shadowing:
        c = next(c for c in p["classes"] if c["name"] == G["cls"])
        if any(pn in genclass._bare_vars(f["init"]) for f in c["fields"] if f.get("init") and not f.get("static")):
            hot.append((G, pn))
    special = True
    if hot and draw(st.integers(0, 3)) > 0:
        F, v = draw(st.sampled_from(hot))
        mine = declared_names(F)
    elif shadowing and draw(st.booleans()):
        F, v = draw(st.sampled_from(shadowing))
        mine = declared_names(F)
    else:
        special = False
        F = draw(st.sampled_from(Fs))
        mine = declared_names(F)
        v = draw(st.sampled_from(sorted(set(mine))))
    # fields that some method UPDATES through their bare name (x++, x = e): the names a caller's local is most interesting to
    # collide with, because an update that leaks out of the callee's frame lands in that local
    written = set()
    for c in p.get("classes", []):
        if c["name"] == "T":
            continue  # the tracer's own counter
        fnames = {f["name"] for cc in genclass.ancestors(p["classes"], c["name"]) for f in cc["fields"]}
        for m in c.get("methods", []):
            def fs(s_, fnames=fnames):
                if s_["k"] in ("assign", "post") and s_.get("name") in fnames:
                    written.add(s_["name"])
                if s_["k"] == "expr" and isinstance(s_.get("e"), dict) and s_["e"].get("k") == "post" and s_["e"].get("name") in fnames:
                    written.add(s_["e"]["name"])
            genprog.walk_stmts(m["body"], fs, lambda e: None)
    force_hot = False
    if written and not special and draw(st.booleans()):
        # rename an int local of a plain function (main first: it is on the stack during every call), to such a field's name
        plain = [G for G in Fs if not G["cls"] and any(s_["t"] == "int" for s_ in _decls(G))]
        mains = [G for G in plain if G["name"] == "main"]
        if plain:
            F = draw(st.sampled_from(mains if (mains and draw(st.integers(0, 3)) > 0) else plain))
            mine = declared_names(F)
            v = draw(st.sampled_from(sorted({s_["name"] for s_ in _decls(F) if s_["t"] == "int"})))
            force_hot = True
    # candidate new names: locals/params of OTHER bodies, fields of classes, and a fresh one
    others = set()
    for G in bodies(p):
        if G["where"] != F["where"]:
            others |= set(declared_names(G))
    fields = {f["name"] for c in p.get("classes", []) for f in c["fields"]}
    forbidden = set(mine) | hierarchy_names(p, F["cls"]) | RESERVED
    cands = sorted((others | fields) - forbidden)
    fresh = "zq7"
    w = draw(st.sampled_from(cands + cands + [fresh])) if cands else fresh
    hotw = sorted(written - forbidden)
    if hotw and (force_hot or draw(st.booleans())):
        w = draw(st.sampled_from(hotw))
    # several renamings of the same body at once (a composition of single capture-free renamings): every further declared name
    # of F gets its own colliding name, field names that methods update first
    pairs = [[v, w]]
    if draw(st.booleans()):
        pool = [n for n in hotw + sorted(fields - forbidden) + cands if n != w]
        seen = {w}
        for v2 in sorted(set(mine) - {v}):
            nxt = next((n for n in pool if n not in seen), None)
            if nxt is None:
                break
            seen.add(nxt)
            pairs.append([v2, nxt])
    return {"prog": p, "where": F["where"], "v": v, "w": w, "pairs": pairs, "collides": w != fresh, "profile": profile,
            "field_collision": any(b in fields for _, b in pairs),
            "from_shadowing": bool(F["cls"]) and v in hierarchy_names(p, F["cls"])}


# ------------------------------------------------------------------ early-exit family (text templates, own renaming)
# A callee leaves a loop / block by `return`; its caller owns variables that are used AFTER the call.  The program is rendered
# twice: with names disjoint from the callee's parameters and locals, and with exactly the callee's names.  Lexical scoping
# makes the two renderings print the same (no name occurs in the output).

EX_SHAPES = {
    "for": "for (int {I} = 0; {I} < {N}; {I} = {I} + 1) {{ if ({I} == {R}) {{ return 100 + {I}; }} }}",
    "for_block": "for (int {I} = 0; {I} < {N}; {I} = {I} + 1) {{ int {T} = {I} * 2; {{ if ({T} == {R} * 2) {{ return 100 + {I}; }} }} }}",
    "nested_for": "for (int {T} = 0; {T} < 2; {T} = {T} + 1) {{ for (int {I} = 0; {I} < {N}; {I} = {I} + 1) {{ if ({I} == {R}) {{ return 100 + {I} + {T}; }} }} }}",
    "while": "int {I} = 0; while ({I} < {N}) {{ if ({I} == {R}) {{ return 100 + {I}; }} {I} = {I} + 1; }}",
    "if_block": "int {I} = {R}; if ({I} < {N}) {{ int {T} = {I} + 1; return 100 + {T}; }}",
}


@st.composite
def exit_case(draw):
    return {"kind": "exit", "shape": draw(st.sampled_from(sorted(EX_SHAPES))), "r": draw(st.integers(0, 4)), "n": draw(st.integers(0, 5)),
            "method": draw(st.booleans()), "relay": draw(st.booleans()), "collide": draw(st.lists(st.booleans(), min_size=4, max_size=4))}


def exit_program(case, collide):
    callee = {"R": "r", "N": "n", "I": "i", "T": "t"}
    caller = {}
    for k, (own, c) in zip(["R", "N", "I", "T"], zip(["a", "b", "c", "d"], case["collide"])):
        caller[k] = callee[k] if (collide and c) else own
    body = EX_SHAPES[case["shape"]].format(**callee)
    fn = f"function f(int {callee['R']}, int {callee['N']}) -> int {{ {body} return 0 - 1; }}"
    decl = ("class H { public constructor() -> H { return this; } public " + fn + " }\n") if case["method"] else fn + "\n"
    call = ("h.f(%d, %d)" if case["method"] else "f(%d, %d)") % (case["r"], case["n"])
    A, B, C, D = caller["R"], caller["N"], caller["I"], caller["T"]
    use = (f"int {A} = 40; int {B} = 50; int {C} = 60; int {D} = 70; " + ("H h = new H(); " if case["method"] else "") +
           f"echo({call}); echo({A}); echo({B}); echo({C}); echo({D}); {A} = {A} + 1; {C} = {C} + {B}; echo({A}); echo({C}); "
           f"echo({call}); echo({A} + {B} + {C} + {D});")
    if case["relay"]:
        return decl + f"function mid() -> int {{ {use} return {A}; }}\nfunction main() -> void {{ int {A} = 7; echo(mid()); echo({A}); }}\n"
    return decl + f"function main() -> void {{ {use} }}\n"


# Destructor chains: every class of a 2-3 deep hierarchy has a destructor; the derived destructors declare locals, the base
# destructors read their own fields by bare name.  Rendered twice: locals with fresh names, and locals named like the fields
# the ANCESTOR destructors read (seeded change C09-a4: one frame shared by the whole chain).  No name is printed.

@st.composite
def dtor_case(draw):
    return {"kind": "dtor", "depth": draw(st.integers(2, 3)), "vals": draw(st.lists(st.integers(1, 90), min_size=6, max_size=6)),
            "how": draw(st.sampled_from(["scope", "destroy", "function"])), "collide": draw(st.lists(st.booleans(), min_size=4, max_size=4)),
            "write": draw(st.booleans())}


def dtor_program(case, collide):
    v = case["vals"]
    col = case["collide"] if collide else [False] * 4
    x, y = ("f0" if col[0] else "x1"), ("g0" if col[1] else "y1")
    p, q = ("f1" if col[2] else "p2"), ("g0" if col[3] else "q2")
    wr = " f0 = f0 + 1; echo(f0);" if case["write"] else ""
    src = (f"class K0 {{ protected int f0 = {v[0]}; public int g0 = {v[1]}; public constructor() -> K0 {{ }} "
           f"destructor() -> void {{ echo(\"K0 \" + f0 + \" \" + g0);{wr} }} }}\n"
           f"class K1 extends K0 {{ protected int f1 = {v[2]}; public constructor() -> K1 {{ }} "
           f"destructor() -> void {{ int {x} = {v[3]}; int {y} = {v[4]}; {x} = {x} + 1; echo(\"K1 \" + ({x} * 100 + {y}) + \" \" + f1); }} }}\n")
    top = "K1"
    if case["depth"] == 3:
        src += (f"class K2 extends K1 {{ public constructor() -> K2 {{ }} "
                f"destructor() -> void {{ int {p} = {v[5]}; int {q} = {v[3]} + 2; echo(\"K2 \" + ({p} * 100 + {q})); }} }}\n")
        top = "K2"
    if case["how"] == "function":
        return src + f"function work() -> void {{ {top} s = new {top}(); echo(\"w\"); }}\nfunction main() -> void {{ work(); echo(\"done\"); }}\n"
    if case["how"] == "destroy":
        return src + f"function main() -> void {{ {top} s = new {top}(); echo(\"w\"); destroy s; echo(\"done\"); }}\n"
    return src + f"function main() -> void {{ {{ {top} s = new {top}(); echo(\"w\"); }} echo(\"done\"); }}\n"


class C09(Check):
    prop = "C09"
    rule = ("programs from the classic and classes profiles; one local/parameter of one function/method/constructor renamed to a "
            "name that is fresh or collides with locals of other functions, fields or parameters elsewhere (capture-free by "
            "construction); non-trivial = the new name collides with a name declared in another body or with a field of some "
            "class, and the program runs to completion; distinct = SHA-1 of (program, F, v, w)")
    assumptions = ["the generators never give a local or a method parameter the name of a field visible in its own class hierarchy; "
                   "constructor parameters may shadow a field, and inside that constructor every bare use of the name is the parameter"]
    floors = {"__nontrivial__": (800, 15000), "field_collision": (150, 3000)}

    def render(self, p):
        return genclass.render(p) if p.get("classes") else genprog.render_program(p)

    def exit_run(self, case, sc, stats=None):
        dtor = case["kind"] == "dtor"
        s1, s2 = (dtor_program(case, False), dtor_program(case, True)) if dtor else (exit_program(case, False), exit_program(case, True))
        r1 = progrun.run_cli(self.drv, sc, s1)
        r2 = progrun.run_cli(self.drv, sc, s2)
        if r1.proc.timeout or r2.proc.timeout:
            return None
        for r, s_ in ((r1, s1), (r2, s2)):
            if r.proc.crashed() or r.rc != 0:
                return {"why": f"early-exit program failed: rc={r.rc} {r.stderr_lines[-1:]}", "source": s_, **r.proc.brief()}
        if stats is not None:
            nt = any(case["collide"][:2 if case["depth"] == 2 else 4]) if dtor else (any(case["collide"]) and case["r"] < case["n"])
            stats.record(case, nt, tags=["destructor_chain_family", "destroyed_by_" + case["how"]] if dtor else ["early_exit_family", "shape_" + case["shape"]],
                         sample={"disjoint": s1, "colliding": s2})
        if list(r1.stdout_lines) != list(r2.stdout_lines):
            return {"why": "giving the caller's variables the names of the callee's parameters / locals changed the output",
                    "disjoint": list(r1.stdout_lines), "colliding": list(r2.stdout_lines), "source_disjoint": s1, "source_colliding": s2}
        return None

    def run_case(self, case, sc, stats=None):
        if case.get("kind") in ("exit", "dtor"):
            return self.exit_run(case, sc, stats)
        if case.get("skip"):
            return None
        p = case["prog"]
        if p.get("classes"):
            from .. import ref_class, ref_classic
            try:
                ref_class.run_reference(p)  # termination filter (unbounded recursion through virtual dispatch)
            except ref_classic.Undocumented:
                if stats is not None:
                    stats.count("discarded_by_reference_filter")
                return None
        pairs = case.get("pairs") or [[case["v"], case["w"]]]
        q = p
        for a_, b_ in pairs:
            q = apply_rename(q, case["where"], a_, b_)
        s1, s2 = self.render(p), self.render(q)
        r1 = progrun.run_cli(self.drv, sc, s1)
        r2 = progrun.run_cli(self.drv, sc, s2)
        if r1.proc.timeout or r2.proc.timeout:
            if stats is not None:
                stats.inconclusive += 1
            return None
        for r, s in ((r1, s1), (r2, s2)):
            if r.proc.crashed():
                return {"why": "interpreter died", "source": s, **r.proc.brief()}

        def obs(r):
            names = "|".join(re.escape(n) for pr in pairs for n in pr)
            mask = lambda t: re.sub(r"\b(%s)\b" % names, "_", t)
            d = None
            if r.diag:
                d = (r.diag["cat"], mask(r.diag["msg"]))
            # objects dying at the same scope exit are destroyed in an unspecified order (it follows the hash of the variable
            # names): destructor trace runs are compared as sets of per-object chains
            return {"rc": r.rc, "out": progrun.canon_dtor_runs(r.stdout_lines), "diag": d}

        o1, o2 = obs(r1), obs(r2)
        if stats is not None:
            ok = o1["rc"] == 0
            tags = [case["profile"]] + (["collides"] if case["collides"] else ["fresh"]) + \
                   (["field_collision"] if case["field_collision"] else []) + (["renamed_shadowing_parameter"] if case.get("from_shadowing") else [])
            stats.record({"p": p, "w": case["where"], "pairs": pairs}, case["collides"] and ok, tags=tags + (["several_renamed"] if len(pairs) > 1 else []),
                         sample={"renamed": f"{pairs} in {case['where']}", "source": s1} if len(s1) < 1800 else None)
        if o1["diag"] and o1["diag"][0] in ("Lexical", "Parse", "Semantic"):
            # the generators only emit accepted programs; a rejected original is a generator problem, not a C09 matter
            if stats is not None:
                stats.count("original_rejected")
            if o2["diag"] and o2["diag"][0] == o1["diag"][0]:
                return None
        if o1 != o2:
            return {"why": f"renaming {', '.join(a_ + ' -> ' + b_ for a_, b_ in pairs)} in {case['where']} changed the behaviour",
                    "original": o1, "renamed": o2, "source_original": s1, "source_renamed": s2}
        return None

    def oracle(self, case):
        with Scratch("c09") as sc:
            return self.run_case(case, sc)

    def search(self, tier, seed):
        return run_workers(_worker, seed, tier=tier, check=self)


def _worker(widx, wseed, tier, check):
    stats = Stats()
    failures = []
    quick = tier == "quick"
    with Scratch("c09") as sc:
        def prop(case, stats):
            why = check.run_case(case, sc, stats)
            if why is not None:
                raise Failure(why)
        for prof, n in (("classes", 180 if quick else 4000), ("classic", 70 if quick else 1500)):
            f = hyp_search(rename_case(prof), prop, derive_seed(wseed, prof), n, stats)
            if f:
                failures.append(f)
        f = hyp_search(exit_case(), prop, derive_seed(wseed, "exit"), 40 if quick else 1000, stats)
        if f:
            failures.append(f)
        f = hyp_search(dtor_case(), prop, derive_seed(wseed, "dtor"), 25 if quick else 400, stats)
        if f:
            failures.append(f)
    return {"stats": stats.export(), "failures": failures}


if __name__ == "__main__":
    sys.exit(C09().main(sys.argv[1:]))
