"""C19 — imports resolve deterministically, load once, detect cycles, check packages.

Generator: a tree specification (entry directory, 0-2 search paths possibly spelled through '..' or a symlink,
working directory), packages of depth <= 3, every physical file declaring one uniquely named marker class (so
the merged program tells exactly which files were loaded), single and wildcard imports, diamonds, cycles
(self-import, wildcard into the own package), the same relative path present in several roots, bloch.* modules
with a local shadow, packages whose first component merely starts with `bloch`, wrong / missing / surplus package lines, 0/1/2 mains, non-.bloch files and a directory
named *.bloch inside wildcard directories.  Materialised under a per-case scratch dir.

Oracle: ref_loader below, written from language-guide.md / semantics.md / the property statement.  Success
=> exactly the predicted marker classes, each once, dependencies before importers (any topological order is
accepted); failure => one Semantic diagnostic (which of several simultaneous defects is reported is not asserted).
Kept out (docs silent): bloch/lang/Object.bloch (implicitly loaded when present), package directories that
exist but hold no .bloch file in an earlier root.
"""
import os
import shutil
import sys

from hypothesis import strategies as st

from ..common import Check, Failure, Scratch, Stats, hyp_search, run_proc, run_workers

ROOTS = ["E", "S1", "S2", "W"]
# "blochkit" only starts with "bloch": an ordinary package, resolved like p and q (seeded change C19-a4)
PKGS = [[], ["p"], ["q"], ["p", "q"], ["p", "r"], ["bloch", "util"], ["p", "q", "r"], ["blochkit"], ["blochkit", "util"]]
NAMES = ["A", "B", "C", "D", "Main"]


@st.composite
def tree_case(draw):
    nfiles = draw(st.integers(2, 8))
    files = []
    used = set()

    def add(root, pkg, name, declared=None):
        if (root, tuple(pkg), name) in used:
            return None
        used.add((root, tuple(pkg), name))
        f = {"root": root, "pkg": list(pkg), "name": name, "declared": list(pkg) if declared is None else declared,
             "imports": [], "main": False, "fn": draw(st.booleans()), "id": len(files)}
        files.append(f)
        return f

    # entry first: usually at the top level of E so that its imports resolve against E itself
    entry_pkg = draw(st.sampled_from([[], [], [], ["p"], ["q"]]))
    entry = add("E", entry_pkg, "Main")
    for _ in range(nfiles - 1):
        root = draw(st.sampled_from(["E", "E", "E", "S1", "S1", "S2", "W"]))
        pkg = draw(st.sampled_from(PKGS))
        name = draw(st.sampled_from(NAMES[:4]))
        decl_kind = draw(st.sampled_from(["ok"] * 14 + ["missing", "wrong", "surplus"]))
        declared = None
        if decl_kind == "missing":
            declared = []
        elif decl_kind == "wrong":
            declared = draw(st.sampled_from([x for x in PKGS if x != pkg]))
        elif decl_kind == "surplus":
            declared = pkg + ["extra"]
        add(root, pkg, name, declared)
    # shadow candidates: the same relative path in another root (distinct physical file, distinct marker)
    for _ in range(draw(st.sampled_from([0, 0, 1, 1, 2]))):
        src = draw(st.sampled_from(files[1:] or files))
        other = draw(st.sampled_from([r for r in ["E", "S1", "S2", "W"] if r != src["root"]]))
        add(other, src["pkg"], src["name"])
    # imports: forward edges (towards later files) give DAGs and diamonds; occasionally arbitrary edges (cycles),
    # self imports, wildcards and dangling names
    for i, f in enumerate(files):
        later = files[i + 1:]
        k = draw(st.integers(0, 3)) if later else draw(st.integers(0, 1))
        for _ in range(k):
            mode = draw(st.integers(0, 19))
            if mode <= 11 and later:
                t = draw(st.sampled_from(later))
                f["imports"].append({"pkg": list(t["pkg"]), "sym": t["name"]})
            elif mode <= 14:
                cands = sorted({tuple(x["pkg"]) for x in (later or files) if x["pkg"]})
                if cands:
                    f["imports"].append({"pkg": list(draw(st.sampled_from(cands))), "sym": None})
            elif mode == 15:
                f["imports"].append({"pkg": list(f["pkg"]), "sym": None if f["pkg"] and draw(st.booleans()) else f["name"]})
            elif mode <= 17:
                t = draw(st.sampled_from(files))
                f["imports"].append({"pkg": list(t["pkg"]), "sym": t["name"]})
            elif mode == 18:
                f["imports"].append({"pkg": draw(st.sampled_from(PKGS)), "sym": draw(st.sampled_from(["Zed", "A"]))})
            else:
                t = draw(st.sampled_from(files))
                if t["pkg"]:
                    f["imports"].append({"pkg": list(t["pkg"]), "sym": None})
    # one physical file reached under two different qualified names: fully qualified from the entry, and relative to the
    # directory of an importer that sits in a prefix package (the second name does not match the declared package, and
    # that must be diagnosed whether or not the file is already loaded)
    if draw(st.integers(0, 3)) == 0 and not entry["pkg"]:
        f = add("E", ["p"], draw(st.sampled_from(NAMES[:4])))
        t = add("E", draw(st.sampled_from([["p", "q"], ["p", "r"], ["p", "q", "r"]])), draw(st.sampled_from(NAMES[:4])))
        if f is not None and t is not None:
            first = [{"pkg": list(t["pkg"]), "sym": t["name"]}, {"pkg": list(f["pkg"]), "sym": f["name"]}]
            if draw(st.booleans()):
                first.reverse()
            entry["imports"] = first + entry["imports"]
            f["imports"].append({"pkg": list(t["pkg"][1:]), "sym": t["name"] if draw(st.booleans()) else None, "relative": True})
    mains = draw(st.sampled_from([1] * 8 + [0, 2]))
    for f in files[:mains]:
        f["main"] = True
    search = draw(st.lists(st.sampled_from(["S1", "S2", "S1", "S1/../S1", "L1", "E"]), max_size=2, unique=True))
    cwd = draw(st.sampled_from(["W", "E", "E", "S1"]))
    extras = draw(st.lists(st.sampled_from(["notes.txt", "X.bloch.bak", "sub.bloch/", "README", "y.blochx"]), max_size=2,
                           unique=True))
    return {"files": files, "entry": entry["id"], "search": search, "cwd": cwd, "extras": extras}


def file_text(f):
    lines = []
    if f["declared"]:
        lines.append("package " + ".".join(f["declared"]) + ";")
    for imp in f["imports"]:
        if imp["sym"] is None:
            lines.append("import " + ".".join(imp["pkg"] + ["*"]) + ";")
        else:
            lines.append("import " + ".".join(imp["pkg"] + [imp["sym"]]) + ";")
    lines.append(f"class Mk{f['id']} {{ public constructor() -> Mk{f['id']} = default; }}")
    if f["fn"]:
        lines.append(f"function fn{f['id']}() -> int {{ return {f['id']}; }}")
    if f["main"]:
        lines.append("function main() -> void { echo(1); }")
    return "\n".join(lines) + "\n"


def materialise(case, base):
    for r in ROOTS:
        os.makedirs(os.path.join(base, r), exist_ok=True)
    link = os.path.join(base, "L1")
    if not os.path.lexists(link):
        os.symlink("S1", link)
    paths = {}
    for f in case["files"]:
        d = os.path.join(base, f["root"], *f["pkg"])
        os.makedirs(d, exist_ok=True)
        p = os.path.join(d, f["name"] + ".bloch")
        with open(p, "w") as fh:
            fh.write(file_text(f))
        paths[f["id"]] = p
    # extras only into directories that hold at least one .bloch file
    dirs = sorted({os.path.dirname(p) for p in paths.values()})
    for d in dirs:
        for x in case["extras"]:
            if x.endswith("/"):
                os.makedirs(os.path.join(d, x[:-1]), exist_ok=True)
            else:
                with open(os.path.join(d, x), "w") as fh:
                    fh.write("not a module\n")
    return paths


class RefFail(Exception):
    pass


def ref_loader(case, base, paths):
    """Predicts (loaded file ids in some valid order, edges) or raises RefFail(reason)."""
    by_path = {os.path.realpath(p): fid for fid, p in paths.items()}
    search = [os.path.join(base, s) for s in case["search"]]
    cwd = os.path.join(base, case["cwd"])
    loaded = []
    stack = []
    edges = []
    feats = set()

    def bases_for(parts, from_dir):
        if parts and parts[0] == "bloch":
            return search + [from_dir, cwd]
        return [from_dir] + search + [cwd]

    def resolve_single(parts, from_dir):
        rel = os.path.join(*parts) + ".bloch"
        hits = []
        for b in bases_for(parts, from_dir):
            c = os.path.join(b, rel)
            if os.path.isfile(c):
                hits.append(os.path.realpath(c))
        if len(set(hits)) >= 2:
            feats.add("same_path_in_2_roots")
            if parts and parts[0] == "bloch":
                feats.add("bloch_preference")
        return hits[0] if hits else None

    def resolve_wild(parts, from_dir):
        rel = os.path.join(*parts) if parts else "."
        for b in bases_for(parts, from_dir):
            d = os.path.join(b, rel)
            if os.path.isdir(d):
                mods = sorted(os.path.join(d, n) for n in os.listdir(d)
                              if n.endswith(".bloch") and os.path.splitext(n)[1] == ".bloch" and n != ".bloch"
                              and os.path.isfile(os.path.join(d, n)))
                if mods:
                    return [os.path.realpath(m) for m in mods]
        return []

    def load(path):
        canon = os.path.realpath(path)
        if canon in stack:
            feats.add("cycle")
            raise RefFail("cycle")
        if canon in loaded:
            feats.add("diamond_or_repeat")
            return
        stack.append(canon)
        f = case["files"][by_path[canon]]
        from_dir = os.path.dirname(canon)
        for imp in f["imports"]:
            if imp["sym"] is None:
                feats.add("wildcard")
                targets = resolve_wild(imp["pkg"], from_dir)
                if not targets:
                    raise RefFail("wildcard not found")
                for t in targets:
                    if t == canon:
                        continue
                    load(t)
                    edges.append((by_path[canon], by_path[t]))
                    if case["files"][by_path[t]]["declared"] != imp["pkg"]:
                        raise RefFail("package mismatch")
            else:
                t = resolve_single(imp["pkg"] + [imp["sym"]], from_dir)
                if t is None:
                    raise RefFail("import not found")
                load(t)
                if t != canon:
                    edges.append((by_path[canon], by_path[t]))
                if case["files"][by_path[t]]["declared"] != imp["pkg"]:
                    raise RefFail("package mismatch")
        loaded.append(canon)
        stack.pop()

    try:
        load(paths[case["entry"]])
        ids = [by_path[c] for c in loaded]
        mains = sum(1 for i in ids if case["files"][i]["main"])
        if mains != 1:
            raise RefFail(f"{mains} mains")
    except RefFail as e:
        return None, str(e), feats
    if any("/../" in s or s == "L1" for s in case["search"]):
        feats.add("alias_path")
    return (ids, edges), None, feats


class C19(Check):
    prop = "C19"
    rule = ("generated directory trees (4 roots, packages depth<=3, 2-9 files with unique marker classes, single/wildcard imports, "
            "wrong/missing/surplus package lines, 0/1/2 mains, extras) with generated entry / search-path list (incl. '..' and "
            "symlink spellings) / cwd; reference resolver predicts the loaded set or failure. non-trivial = >=1 of {diamond, cycle, "
            "same relative path in >=2 roots, wildcard, bloch.* preference, alias path}; distinct = SHA-1 of the tree spec")
    assumptions = ["ref_loader encodes the documented resolution order; any dependency-first order and any Semantic error accepted",
                   "bloch/lang/Object.bloch is never generated (implicit root loading is undocumented)"]
    floors = {"__nontrivial__": (800, 15000), "expect_success": (300, 5000), "cycle": (80, 1000),
              "same_path_in_2_roots": (80, 1000), "wildcard": (300, 5000)}

    def run_case(self, case, sc, stats=None):
        base = os.path.join(sc.dir, "tree")
        shutil.rmtree(base, ignore_errors=True)
        os.makedirs(base)
        paths = materialise(case, base)
        pred, reason, feats = ref_loader(case, base, paths)
        args = [self.drv, "load"]
        for s in case["search"]:
            args += ["--search", os.path.join(base, s)]
        args.append(paths[case["entry"]])
        r = run_proc(args, cwd=os.path.join(base, case["cwd"]))
        if r.timeout:
            if stats is not None:
                stats.inconclusive += 1
            return None
        if r.crashed() or r.rc != 0:
            return {"why": "loader process died", **r.brief()}
        objs = r.json_lines()
        if len(objs) != 1:
            return {"why": "no loader result", **r.brief()}
        obs = objs[0]
        if stats is not None:
            tags = sorted(feats) + (["expect_success"] if pred else ["expect_failure"])
            stats.record(case, bool(feats), sample={"files": [(f["root"], f["pkg"], f["name"], f["declared"], f["imports"],
                                                               f["main"]) for f in case["files"]],
                                                    "entry": case["entry"], "search": case["search"], "cwd": case["cwd"],
                                                    "expected": reason or "success"}, tags=tags)
        if "rawexc" in obs:
            return {"why": f"raw exception {obs['rawexc']}: {obs.get('what')}"}
        if pred is None:
            if obs.get("ok"):
                return {"why": f"loader accepted a layout the reference rejects ({reason})", "classes": obs.get("classes")}
            if obs.get("cat") != "Semantic":
                return {"why": f"expected a Semantic diagnostic ({reason}), got {obs.get('cat')}: {obs.get('msg')}"}
            return None
        if not obs.get("ok"):
            return {"why": f"loader rejected a valid layout: {obs.get('cat')} {obs.get('msg')}"}
        ids, edges = pred
        got = obs["classes"]
        want = sorted(f"Mk{i}" for i in ids)
        if sorted(got) != want:
            return {"why": f"loaded marker classes {got} differ from the predicted set {want}"}
        if len(set(got)) != len(got):
            return {"why": f"a file was loaded more than once: {got}"}
        pos = {c: k for k, c in enumerate(got)}
        for a, b in edges:
            if pos[f"Mk{b}"] > pos[f"Mk{a}"]:
                return {"why": f"dependency Mk{b} appears after its importer Mk{a}: {got}"}
        fns = [x for x in obs["functions"] if x != "main"]
        wantf = sorted(f"fn{i}" for i in ids if case["files"][i]["fn"])
        if sorted(fns) != wantf:
            return {"why": f"merged functions {fns} differ from {wantf}"}
        return None

    def oracle(self, case):
        with Scratch("c19") as sc:
            return self.run_case(case, sc)

    def search(self, tier, seed):
        return run_workers(_worker, seed, tier=tier, check=self)


def _worker(widx, wseed, tier, check):
    stats = Stats()
    failures = []
    with Scratch("c19") as sc:
        def prop(case, stats):
            why = check.run_case(case, sc, stats)
            if why is not None:
                raise Failure(why)
        f = hyp_search(tree_case(), prop, wseed, 500 if tier == "quick" else 10000, stats)
        if f:
            failures.append(f)
    return {"stats": stats.export(), "failures": failures}


if __name__ == "__main__":
    sys.exit(C19().main(sys.argv[1:]))
