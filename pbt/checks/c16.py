"""C16 — static rules are enforced in every syntactic position, and only there.

A fixed, accepted skeleton program (classes with public/protected/private/static/final members, an abstract and a static
class, helper functions) has SLOTS: a statement in main, in a free function with parameters, in an instance method, in a
constructor, in a static method, in a subclass method, in an unrelated class's method; a field initialiser and a static
field initialiser; extra members; extra top-level declarations.  Each CELL of the rule x position x type-pair matrix is a
(violating snippet, repaired twin) pair for one slot; statement-level snippets are additionally embedded in a nested block,
an if-branch, a loop body and a for-increment where that is syntactically possible.
Oracle: the violating program is rejected with a SEMANTIC diagnostic; its twin is accepted.  (R9: any rejection.)
"""
import sys

from hypothesis import strategies as st

from .. import common
from ..common import Check, Failure, Scratch, Stats, hyp_search, run_proc, run_workers

SKELETON = """static class Util {
    public static int k = 0;
    public static function f() -> int { return 1; }
    %(UTIL_MEMBERS)s
}
abstract class Abs {
    public constructor() -> Abs = default;
    public virtual function am() -> int;
}
class ArrOnly {
    public constructor(int[] a0) -> ArrOnly { }
    public function am(int[] a0) -> int { return 1; }
    public static function sam(float[] a0) -> int { return 2; }
}
class ArrSub extends ArrOnly {
    public constructor(int[] z0) -> ArrSub { %(ARRSUB_SUPER)s }
}
class PrimOnly {
    public constructor(int p0) -> PrimOnly { }
}
class Other {
    public int ov = 1;
    public constructor() -> Other { }
    public function peek(Animal a0) -> int {
        Dog d0 = new Dog();
        %(OTHER_METHOD)s
        return 0;
    }
}
class Animal {
    public int legs = 4;
    public long big = 1L;
    public string name = "n";
    public Animal mate = null;
    public int[] arr = {1, 2};
    protected int prot = 1;
    private int priv = 2;
    public static int count = 0;
    private static int scount = 0;
    protected static int pcount = 0;
    public final int fin = 1;
    public final int fin2;
    public static final int SFIN = 3;
    %(ANIMAL_FIELDS)s
    public constructor() -> Animal {
        this.fin2 = 5;
        %(ANIMAL_CTOR)s
    }
    public constructor(int a0) -> Animal { this.fin2 = a0; }
    private constructor(string s0) -> Animal { this.fin2 = 0; }
    public function pub() -> int { return 1; }
    protected function pro() -> int { return 2; }
    private function pri() -> int { return 3; }
    public function noth() -> void { }
    public virtual function virt() -> int { return 5; }
    public function takes(int p0) -> int { return p0; }
    public function takesL(long p0) -> long { return p0; }
    public function takesA(Animal p0) -> int { return 1; }
    public static function smeth() -> int {
        int sv = 0;
        %(ANIMAL_STATIC)s
        return 4;
    }
    private static function spriv() -> int { return 6; }
    public function meth(int p0, Animal pa) -> int {
        int mi = 1; long ml = 2L; float mf = 1.5f; string ms = "s"; bit mb = 1b; boolean mz = true;
        Animal ma = new Animal(); Dog md = new Dog(); Other mo = new Other(); int[] mai = {1}; float[] maf = {1.0f};
        final int mfin = 7;
        %(ANIMAL_METHOD)s
        return 0;
    }
    %(ANIMAL_MEMBERS)s
}
class Dog extends Animal {
    public int tail = 1;
    public constructor() -> Dog { super(); %(DOG_CTOR)s }
    public constructor(int a0) -> Dog { %(DOG_SUPER)s }
    public override function virt() -> int { return 6; }
    public function dogm(int p0) -> int {
        int di = 1;
        %(DOG_METHOD)s
        return 0;
    }
}
function vf() -> void { }
function takesInt(int a) -> int { return a; }
function takesLong(long a) -> long { return a; }
function takesFloat(float a) -> float { return a; }
function takesString(string a) -> string { return a; }
function takesBit(bit a) -> bit { return a; }
function takesAnimal(Animal a) -> int { return 1; }
function takesDog(Dog a) -> int { return 1; }
function takesArr(int[] a) -> int { return a[0]; }
function retInt() -> int { %(RET_INT)s }
function retLong() -> long { %(RET_LONG)s }
function retAnimal() -> Animal { %(RET_ANIMAL)s }
function retDog() -> Dog { %(RET_DOG)s }
function retArr() -> int[] { int[] ra = {1}; %(RET_ARR)s }
function retVoid() -> void { %(RET_VOID)s }
function fn(int p0, Animal pa) -> int {
    int fi = 1;
    %(FUNC)s
    return 0;
}
%(TOP)s
function main() -> void {
    int vi = 1; long vl = 2L; float vf0 = 1.5f; string vs = "s"; bit vb = 1b; boolean vz = true;
    Animal va = new Animal(); Dog vd = new Dog(); Other vo = new Other(); int[] vai = {1}; float[] vaf = {1.0f};
    final int vfin = 7;
    %(MAIN)s
}
"""
DEFAULTS = {"UTIL_MEMBERS": "", "OTHER_METHOD": "", "ANIMAL_FIELDS": "", "ANIMAL_CTOR": "", "ANIMAL_STATIC": "", "ANIMAL_METHOD": "",
            "ANIMAL_MEMBERS": "", "DOG_CTOR": "", "DOG_SUPER": "super();", "ARRSUB_SUPER": "super(z0);", "DOG_METHOD": "", "RET_INT": "return 1;", "RET_LONG": "return 1L;",
            "RET_ANIMAL": "return new Animal();", "RET_DOG": "return new Dog();", "RET_ARR": "return ra;", "RET_VOID": "", "FUNC": "",
            "TOP": "", "MAIN": ""}

# typed values available in MAIN (v*) and in ANIMAL_METHOD (m*)
VALS = {"int": "{p}i", "long": "{p}l", "float": "{p}f", "string": "{p}s", "bit": "{p}b", "boolean": "{p}z", "Animal": "{p}a", "Dog": "{p}d",
        "Other": "{p}o", "int[]": "{p}ai", "float[]": "{p}af"}


def val(t, ctx):
    p = "v" if ctx == "MAIN" else "m"
    s = VALS[t].format(p=p)
    return "vf0" if s == "vf" else s


# (expected type, offending value type, compatible value expression type)
R1_PAIRS = [("int", "string", "int"), ("string", "int", "string"), ("int", "float", "int"), ("float", "int", "float"), ("int", "long", "int"),
            ("bit", "int", "bit"), ("boolean", "bit", "boolean"), ("boolean", "int", "boolean"), ("Animal", "Other", "Dog"),
            ("Dog", "Animal", "Dog"), ("int", "Animal", "int"), ("Animal", "int", "Animal"), ("int[]", "float[]", "int[]"),
            ("int", "int[]", "int"), ("int[]", "int", "int[]"), ("long", "float", "int"), ("string", "Animal", "string")]
TAKES = {"int": "takesInt", "long": "takesLong", "float": "takesFloat", "string": "takesString", "bit": "takesBit", "Animal": "takesAnimal",
         "Dog": "takesDog", "int[]": "takesArr"}
FIELD_OF = {"int": "legs", "long": "big", "string": "name", "Animal": "mate", "int[]": "arr"}
RETS = {"int": "RET_INT", "long": "RET_LONG", "Animal": "RET_ANIMAL", "Dog": "RET_DOG", "int[]": "RET_ARR"}


def cells():
    out = []

    def add(rule, pos, slot, bad, good, wrap=True, any_reject=False):
        out.append({"rule": rule, "pos": pos, "slot": slot, "bad": bad, "good": good, "wrap": wrap, "any": any_reject})

    for exp, badt, goodt in R1_PAIRS:
        for ctx in ("MAIN", "ANIMAL_METHOD"):
            b, g = val(badt, ctx), val(goodt, ctx)
            tag = f"{exp}<-{badt}"
            add("R1", f"local initialiser {tag}", ctx, f"{exp} t0 = {b};", f"{exp} t0 = {g};")
            tgt = val(exp, ctx)
            add("R1", f"assignment statement {tag}", ctx, f"{tgt} = {b};", f"{tgt} = {g};")
            if exp in ("int", "long", "float", "string", "boolean", "bit"):
                add("R1", f"assignment expression nested {tag}", ctx, f"echo(({tgt} = {b}));", f"echo(({tgt} = {g}));")
                add("R1", f"for-increment {tag}", ctx, f"for (int q0 = 0; q0 < 1; {tgt} = {b}) {{ q0 = q0 + 1; }}",
                    f"for (int q0 = 0; q0 < 1; {tgt} = {g}) {{ q0 = q0 + 1; }}", wrap=False)
            if exp in TAKES:
                add("R1", f"function argument {tag}", ctx, f"{TAKES[exp]}({b});", f"{TAKES[exp]}({g});")
            if exp in FIELD_OF:
                obj = val("Animal", ctx)
                add("R1", f"o.f = v {tag}", ctx, f"{obj}.{FIELD_OF[exp]} = {b};", f"{obj}.{FIELD_OF[exp]} = {g};")
                if ctx == "ANIMAL_METHOD":
                    add("R1", f"this.f = v {tag}", ctx, f"this.{FIELD_OF[exp]} = {b};", f"this.{FIELD_OF[exp]} = {g};")
                    add("R1", f"bare field write {tag}", ctx, f"{FIELD_OF[exp]} = {b};", f"{FIELD_OF[exp]} = {g};")
        lit = {"int": "1", "long": "1L", "float": "1.5f", "string": '"s"', "bit": "1b", "boolean": "true", "Animal": "new Animal()", "Dog": "new Dog()",
               "Other": "new Other()", "int[]": None, "float[]": None}
        if lit[badt] and lit[goodt]:
            add("R1", f"field initialiser {exp}<-{badt}", "ANIMAL_FIELDS", f"public {exp} extra0 = {lit[badt]};", f"public {exp} extra0 = {lit[goodt]};", wrap=False)
            add("R1", f"static field initialiser {exp}<-{badt}", "ANIMAL_FIELDS", f"public static {exp} extra0 = {lit[badt]};",
                f"public static {exp} extra0 = {lit[goodt]};", wrap=False)
            if exp in RETS:
                add("R1", f"return {exp}<-{badt}", RETS[exp], f"return {lit[badt]};", f"return {lit[goodt]};", wrap=False)
            if exp == "int":
                add("R1", f"method argument {exp}<-{badt}", "MAIN", f"va.takes({lit[badt]});", f"va.takes({lit[goodt]});")
                add("R1", f"constructor argument {exp}<-{badt}", "MAIN", f"Animal t0 = new Animal({lit[badt]});", f"Animal t0 = new Animal({lit[goodt]});")
                add("R1", f"super(...) argument {exp}<-{badt}", "DOG_SUPER", f"super({lit[badt]});", f"super({lit[goodt]});", wrap=False)
            if exp == "Animal":
                add("R1", f"method argument {exp}<-{badt}", "MAIN", f"va.takesA({lit[badt]});", f"va.takesA({lit[goodt]});")
        if exp == "Animal":
            add("R1", "C.s = v static field of class type", "MAIN", "Util.k = vs;", "Util.k = vi;")
    add("R1", "C.s = v int<-string", "MAIN", "Animal.count = vs;", "Animal.count = vi;")
    add("R1", "C.s = v int<-float", "ANIMAL_METHOD", "Animal.count = mf;", "Animal.count = mi;")
    add("R1", "int widens to long in argument", "MAIN", "takesInt(vl);", "takesLong(vi);")
    add("R1", "null for a class reference argument", "MAIN", "takesInt(null);", "takesAnimal(null);")

    # R2 final
    for ctx, fv in (("MAIN", "vfin"), ("ANIMAL_METHOD", "mfin")):
        add("R2", "final local assigned (statement)", ctx, f"{fv} = 2;", f"{val('int', ctx)} = 2;")
        add("R2", "final local incremented (statement)", ctx, f"{fv}++;", f"{val('int', ctx)}++;")
        add("R2", "final local assigned (nested expression)", ctx, f"echo(({fv} = 2));", f"echo(({val('int', ctx)} = 2));")
        add("R2", "final local incremented (nested expression)", ctx, f"echo({fv}++ + 1);", f"echo({val('int', ctx)}++ + 1);")
        add("R2", "final local in for-increment", ctx, f"for (int q0 = 0; q0 < 1; {fv}++) {{ q0 = q0 + 1; }}",
            f"for (int q0 = 0; q0 < 1; {val('int', ctx)}++) {{ q0 = q0 + 1; }}", wrap=False)
    add("R2", "final field via this.f outside a constructor", "ANIMAL_METHOD", "this.fin = 2;", "this.legs = 2;")
    add("R2", "final field via bare name outside a constructor", "ANIMAL_METHOD", "fin = 2;", "legs = 2;")
    add("R2", "final field f++ outside a constructor", "ANIMAL_METHOD", "fin++;", "legs++;")
    add("R2", "final field via o.f", "MAIN", "va.fin = 2;", "va.legs = 2;")
    add("R2", "final field via o.f (other class)", "OTHER_METHOD", "a0.fin2 = 2;", "a0.legs = 2;")
    add("R2", "final static via C.s", "MAIN", "Animal.SFIN = 2;", "Animal.count = 2;")
    add("R2", "final static via bare name in static method", "ANIMAL_STATIC", "SFIN = 2;", "count = 2;")
    add("R2", "final field assigned twice in a constructor", "ANIMAL_CTOR", "this.fin2 = 6;", "this.legs = 6;", wrap=False)
    add("R2", "final field assigned in a nested block of a constructor", "ANIMAL_MEMBERS",
        "public final int f3; public constructor(long z0) -> Animal { this.fin2 = 1; if (true) { this.f3 = 1; } }",
        "public int f3; public constructor(long z0) -> Animal { this.fin2 = 1; if (true) { this.f3 = 1; } }", wrap=False)
    # a final field whose ONLY write in its (only) constructor is an increment / decrement / compound form: "assigned exactly once"
    # must not be satisfied by f++ (seeded change C16-a4); a class of its own so that no other rule rejects the bad variant
    for nm, ty, stmt in (("inc", "int", "n++;"), ("dec", "long", "n--;"),
                         ("inc after use", "int", "echo(n); n++;")):
        add("R2", f"final field whose only constructor write is {nm}", "TOP",
            f"class Fz0 {{ public final {ty} n; public constructor() -> Fz0 {{ {stmt} }} }}",
            f"class Fz0 {{ public {ty} n; public constructor() -> Fz0 {{ {stmt} }} }}", wrap=False)
    add("R2", "final field with initialiser assigned in a constructor", "ANIMAL_CTOR", "this.fin = 6;", "this.legs = 6;", wrap=False)
    add("R2", "inherited final field assigned in a derived constructor", "DOG_CTOR", "this.fin2 = 6;", "this.legs = 6;", wrap=False)
    add("R2", "final field missing in one constructor", "ANIMAL_MEMBERS", "public constructor(long z0) -> Animal { this.legs = 1; }",
        "public constructor(long z0) -> Animal { this.fin2 = 1; }", wrap=False)
    add("R2", "final static without initialiser", "ANIMAL_FIELDS", "public static final int SF2;", "public static final int SF2 = 1;", wrap=False)
    add("R2", "final local without initialiser", "MAIN", "final int t0;", "final int t0 = 1;")
    for slot, fld in (("ANIMAL_METHOD", "legs"), ("DOG_METHOD", "legs"), ("DOG_METHOD", "tail"), ("ANIMAL_STATIC", "count")):
        add("R2", f"final local initialised from the bare field {fld}, then assigned", slot, f"final int t0 = {fld}; t0 = 2;",
            f"final int t0 = {fld}; echo(t0);")

    # R1 on EXPRESSIONS: the static type of an operator application is the documented promotion of its operand types
    # (int op long -> long, anything op float -> float, '/' -> float, comparisons -> boolean, string + x -> string, unary minus
    # and casts as written); a narrower declared target must refuse it, the promoted target must accept it
    EXPR = []
    for op in ("+", "-", "*", "%"):
        EXPR += [(f"{{int}} {op} {{long}}", "long", "int"), (f"{{long}} {op} {{int}}", "long", "int")]
        if op != "%":
            EXPR += [(f"{{int}} {op} {{float}}", "float", "int"), (f"{{float}} {op} {{long}}", "float", "long"),
                     (f"{{long}} {op} {{float}}", "float", "long")]
    EXPR += [("{int} / {int}", "float", "int"), ("{long} / {int}", "float", "long"), ("{int} < {long}", "boolean", "int"),
             ("{float} >= {int}", "boolean", "float"), ("-{long}", "long", "int"), ("-{float}", "float", "int"),
             ("(long) {int}", "long", "int"), ("(float) {int}", "float", "int"), ("{string} + {int}", "string", "int"),
             ("{int} + {string}", "string", "int"), ("{int} == {int}", "boolean", "int")]
    for ctx in ("MAIN", "ANIMAL_METHOD"):
        for tmpl, res, narrow in EXPR:
            e = tmpl.format(**{"int": val("int", ctx), "long": val("long", ctx), "float": val("float", ctx), "string": val("string", ctx)})
            tag = f"{tmpl.replace('{', '').replace('}', '')} is {res}, not {narrow}"
            add("R1", f"expression initialiser: {tag}", ctx, f"{narrow} t0 = {e};", f"{res} t0 = {e};")
            tgt_n, tgt_r = val(narrow, ctx), val(res, ctx)
            add("R1", f"expression assigned: {tag}", ctx, f"{tgt_n} = {e};", f"{tgt_r} = {e};")
            if narrow in TAKES and res in TAKES:
                add("R1", f"expression as argument: {tag}", ctx, f"{TAKES[narrow]}({e});", f"{TAKES[res]}({e});")
    add("R1", "expression returned: int % long from an int function", "RET_INT", "return 7 % 2L;", "return 7 % 2;", wrap=False)
    add("R1", "expression returned: long + int from an int function", "RET_INT", "return 2L + 7;", "return 2 + 7;", wrap=False)
    add("R1", "expression returned: int / int from a long function", "RET_LONG", "return 7 / 2;", "return 7 % 2;", wrap=False)

    # R3 visibility
    for slot, who, obj in (("MAIN", "function", "va"), ("FUNC", "function", "pa"), ("OTHER_METHOD", "unrelated class", "a0")):
        for mem, ok in (("priv", "legs"), ("prot", "legs")):
            add("R3", f"read {mem} field from {who}", slot, f"echo({obj}.{mem});", f"echo({obj}.{ok});")
            add("R3", f"write {mem} field from {who}", slot, f"{obj}.{mem} = 1;", f"{obj}.{ok} = 1;")
        for mem, ok in (("pri", "pub"), ("pro", "pub")):
            add("R3", f"call {mem} method from {who}", slot, f"echo({obj}.{mem}());", f"echo({obj}.{ok}());")
        add("R3", f"read private static from {who}", slot, "echo(Animal.scount);", "echo(Animal.count);")
        add("R3", f"write private static from {who}", slot, "Animal.scount = 1;", "Animal.count = 1;")
        add("R3", f"read protected static from {who}", slot, "echo(Animal.pcount);", "echo(Animal.count);")
        add("R3", f"call private static method from {who}", slot, "echo(Animal.spriv());", "echo(Animal.smeth());")
        add("R3", f"private constructor from {who}", slot, 'Animal t0 = new Animal("s");', "Animal t0 = new Animal(1);")
    add("R3", "private field read in subclass (this.)", "DOG_METHOD", "echo(this.priv);", "echo(this.prot);")
    add("R3", "private field read in subclass (bare)", "DOG_METHOD", "echo(priv);", "echo(prot);")
    add("R3", "private field write in subclass (bare)", "DOG_METHOD", "priv = 3;", "prot = 3;")
    add("R3", "private method call in subclass (bare)", "DOG_METHOD", "echo(pri());", "echo(pro());")
    add("R3", "private method call in subclass (this.)", "DOG_METHOD", "echo(this.pri());", "echo(this.pro());")
    add("R3", "private method via super.m()", "DOG_METHOD", "echo(super.pri());", "echo(super.pro());")
    add("R3", "private static in subclass (bare)", "DOG_METHOD", "echo(scount);", "echo(pcount);")
    add("R3", "private constructor via super(...)", "DOG_SUPER", 'super("s");', "super(1);", wrap=False)
    add("R3", "private field of another object in subclass", "DOG_METHOD", "Animal o0 = new Animal(); echo(o0.priv);", "Animal o0 = new Animal(); echo(o0.legs);")
    # writes through a member expression to an INHERITED private field: the rule is about the class that declares the field,
    # not about the static class of the object expression
    add("R3", "private field write in subclass (this.)", "DOG_METHOD", "this.priv = 3;", "this.prot = 3;")
    add("R3", "private field write of another object in subclass", "DOG_METHOD", "Animal o0 = new Animal(); o0.priv = 3;", "Animal o0 = new Animal(); o0.legs = 3;")
    add("R3", "private field write through a subclass-typed reference in subclass", "DOG_METHOD", "Dog o0 = new Dog(); o0.priv = 3;", "Dog o0 = new Dog(); o0.legs = 3;")
    add("R3", "private field read through a subclass-typed reference in subclass", "DOG_METHOD", "Dog o0 = new Dog(); echo(o0.priv);", "Dog o0 = new Dog(); echo(o0.legs);")
    add("R3", "private method through a subclass-typed reference in subclass", "DOG_METHOD", "Dog o0 = new Dog(); echo(o0.pri());", "Dog o0 = new Dog(); echo(o0.pub());")
    for slot, obj in (("MAIN", "vd"), ("OTHER_METHOD", "d0")):
        add("R3", "inherited private field written through a subclass-typed reference", slot, f"{obj}.priv = 1;", f"{obj}.legs = 1;")
        add("R3", "inherited private field read through a subclass-typed reference", slot, f"echo({obj}.priv);", f"echo({obj}.legs);")
        add("R3", "inherited protected field written through a subclass-typed reference", slot, f"{obj}.prot = 1;", f"{obj}.legs = 1;")
        add("R3", "inherited private method through a subclass-typed reference", slot, f"echo({obj}.pri());", f"echo({obj}.pub());")
    # ... and the declaring class keeps access to its own private members whatever the static type of the reference
    add("R1", "own private field written through a subclass-typed reference (declaring class)", "ANIMAL_METHOD", "md.priv = mo;", "md.priv = 5;")
    add("R1", "own private field read through a subclass-typed reference (declaring class)", "ANIMAL_METHOD", "mo = md.priv;", "mi = md.priv;")
    add("R1", "own private method through a subclass-typed reference (declaring class)", "ANIMAL_METHOD", "mo = md.pri();", "mi = md.pri();")
    add("R1", "own protected field written through a subclass-typed reference (declaring class)", "ANIMAL_METHOD", "md.prot = mo;", "md.prot = 5;")

    # R4 declarations
    for slot in ("MAIN", "ANIMAL_METHOD", "FUNC"):
        add("R4", "use of an undeclared name", slot, "echo(nope0);", "echo(1);")
        add("R4", "assignment to an undeclared name", slot, "nope0 = 1;", "int nope0 = 1;")
        add("R4", "use before declaration", slot, "echo(late0); int late0 = 1;", "int late0 = 1; echo(late0);")
        add("R4", "redeclaration in the same block", slot, "int d0 = 1; int d0 = 2;", "int d0 = 1; int d1 = 2;")
        add("R4", "redeclaration in a nested block", slot, "int d0 = 1; { int d0 = 2; }", "int d0 = 1; { int d1 = 2; }")
        add("R4", "redeclaration in a for-init", slot, "int d0 = 1; for (int d0 = 0; d0 < 1; d0 = d0 + 1) { }", "int d0 = 1; for (int d1 = 0; d1 < 1; d1 = d1 + 1) { }", wrap=False)
        add("R4", "call of an undefined function", slot, "nofn0(1);", "takesInt(1);")
    add("R4", "redeclaration of a parameter (function)", "FUNC", "int p0 = 1;", "int p9 = 1;")
    add("R4", "redeclaration of a parameter (method)", "ANIMAL_METHOD", "int p0 = 1;", "int p9 = 1;")
    add("R4", "inner variable used after its block", "MAIN", "{ int in0 = 1; } echo(in0);", "{ int in0 = 1; echo(in0); }")

    # R5 void
    for slot, obj in (("MAIN", "va"), ("ANIMAL_METHOD", "ma"), ("FUNC", "pa")):
        add("R5", "void function result as initialiser", slot, "int t0 = vf();", "int t0 = takesInt(1);")
        add("R5", "void method result as initialiser", slot, f"int t0 = {obj}.noth();", f"int t0 = {obj}.pub();")
        add("R5", "void result assigned", slot, "int t0 = 0; t0 = vf();", "int t0 = 0; t0 = takesInt(1);")
        add("R5", "void result member-assigned", slot, f"{obj}.legs = vf();", f"{obj}.legs = takesInt(1);")
        add("R5", "void result passed as argument", slot, "takesInt(vf());", "takesInt(takesInt(1));")
        add("R5", "void result as operand", slot, "echo(1 + vf());", "echo(1 + takesInt(1));")
        add("R5", "void method result as operand", slot, f"echo({obj}.noth() + 1);", f"echo({obj}.pub() + 1);")
        add("R5", "void built-in result as initialiser", slot, "qubit qq0; int t0 = h(qq0);", "qubit qq0; h(qq0); int t0 = 1;")
        add("R5", "void variable", slot, "void t0;", "int t0 = 0;")
    add("R5", "void field", "ANIMAL_FIELDS", "public void vfld;", "public int vfld = 0;", wrap=False)
    add("R5", "void function parameter", "TOP", "function vp0(void a) -> int { return 1; }", "function vp0(int a) -> int { return 1; }", wrap=False)
    add("R5", "void method parameter", "ANIMAL_MEMBERS", "public function vp0(void a) -> int { return 1; }", "public function vp0(int a) -> int { return 1; }", wrap=False)
    add("R5", "void constructor parameter", "ANIMAL_MEMBERS", "public constructor(void a, long b) -> Animal { this.fin2 = 1; }",
        "public constructor(float a, long b) -> Animal { this.fin2 = 1; }", wrap=False)
    add("R5", "return value in a void function", "RET_VOID", "return 1;", "return;", wrap=False)
    add("R5", "return value in a void method", "ANIMAL_MEMBERS", "public function rv0() -> void { return 1; }", "public function rv0() -> void { return; }", wrap=False)
    add("R5", "bare return in a non-void function", "RET_INT", "return;", "return 1;", wrap=False)
    add("R5", "bare return in a non-void method", "ANIMAL_MEMBERS", "public function rv0() -> int { return; }", "public function rv0() -> int { return 1; }", wrap=False)
    add("R5", "missing return in a non-void function", "RET_INT", "int zz0 = 1;", "return 1;", wrap=False)

    # R6 instantiating static / abstract classes
    for slot in ("MAIN", "ANIMAL_METHOD", "FUNC", "ANIMAL_STATIC"):
        add("R6", "new of an abstract class (initialiser)", slot, "Abs t0 = new Abs();", "Animal t0 = new Animal();")
        add("R6", "new of a static class (initialiser)", slot, "Util t0 = new Util();", "Animal t0 = new Animal();")
        add("R6", "new of an abstract class (argument)", slot, "takesAnimal(new Abs());", "takesAnimal(new Animal());")
        add("R6", "new of an abstract class (expression statement)", slot, "new Abs();", "new Animal();")
    add("R6", "new of an abstract class (field initialiser)", "ANIMAL_FIELDS", "public Abs af0 = new Abs();", "public Animal af0 = null;", wrap=False)
    add("R6", "new of an abstract class (return)", "RET_ANIMAL", "return new Abs();", "return new Animal();", wrap=False)

    # R7 this / super in static context
    add("R7", "this in a static method", "ANIMAL_STATIC", "echo(this.legs);", "echo(count);")
    add("R7", "this as argument in a static method", "ANIMAL_STATIC", "takesAnimal(this);", "takesAnimal(null);")
    add("R7", "bare instance field in a static method", "ANIMAL_STATIC", "echo(legs);", "echo(count);")
    add("R7", "instance method call in a static method", "ANIMAL_STATIC", "echo(pub());", "echo(spriv());")
    add("R7", "super in a static method", "UTIL_MEMBERS", "public static function sm0() -> int { return super.f(); }", "public static function sm0() -> int { return f(); }", wrap=False)
    add("R7", "this in a static field initialiser", "ANIMAL_FIELDS", "public static int sf0 = this.legs;", "public static int sf0 = 1;", wrap=False)
    add("R7", "this in a static method of a static class", "UTIL_MEMBERS", "public static function sm0() -> int { return this.k; }", "public static function sm0() -> int { return k; }", wrap=False)
    add("R7", "this in a free function", "FUNC", "echo(this);", "echo(1);")

    # R8 @quantum return types
    for t, okt in (("int", "bit"), ("float", "void"), ("string", "bit[]"), ("boolean", "bit"), ("Animal", "void"), ("long", "bit")):
        body = {"int": "return 1;", "float": "return 1.0f;", "string": 'return "s";', "boolean": "return true;", "Animal": "return null;", "long": "return 1L;"}[t]
        okb = {"bit": "return 1b;", "void": "", "bit[]": "bit[] r0 = {1b}; return r0;"}[okt]
        add("R8", f"@quantum function returning {t}", "TOP", f"@quantum function qf0() -> {t} {{ {body} }}", f"@quantum function qf0() -> {okt} {{ {okb} }}", wrap=False)
        add("R8", f"@quantum method returning {t}", "ANIMAL_MEMBERS", f"@quantum public function qm0() -> {t} {{ {body} }}",
            f"@quantum public function qm0() -> {okt} {{ {okb} }}", wrap=False)

    # R9 @shots only on main (any rejection)
    add("R9", "@shots on a non-main function", "TOP", "@shots(2) function sf0() -> void { }", "function sf0() -> void { }", wrap=False, any_reject=True)
    add("R9", "@shots on a method", "ANIMAL_MEMBERS", "@shots(2) public function sm0() -> void { }", "public function sm0() -> void { }", wrap=False, any_reject=True)
    add("R9", "@shots on a @quantum function", "TOP", "@quantum @shots(2) function sf0() -> void { }", "@quantum function sf0() -> void { }", wrap=False, any_reject=True)

    # R10 null
    for slot in ("MAIN", "ANIMAL_METHOD"):
        for t in ("int", "long", "float", "string", "bit", "boolean", "int[]"):
            good = {"int": "1", "long": "1L", "float": "1.0f", "string": '"s"', "bit": "1b", "boolean": "true", "int[]": "{1}"}[t]
            add("R10", f"null initialiser for {t}", slot, f"{t} t0 = null;", f"{t} t0 = {good};")
            if t != "int[]":
                add("R10", f"null assigned to {t}", slot, f"{val(t, slot)} = null;", f"{val(t, slot)} = {good};")
        add("R10", "null argument for a primitive parameter", slot, "takesInt(null);", "takesAnimal(null);")
        add("R10", "null argument for an array parameter", slot, "takesArr(null);", "takesAnimal(null);")
        ai = val("int[]", slot)
        add("R10", "null constructor argument for an array parameter", slot, "ArrOnly t0 = new ArrOnly(null);", f"ArrOnly t0 = new ArrOnly({ai});")
        add("R10", "null constructor argument for a primitive parameter", slot, "PrimOnly t0 = new PrimOnly(null);", "PrimOnly t0 = new PrimOnly(1);")
        add("R10", "null method argument for an array parameter", slot, f"ArrOnly t0 = new ArrOnly({ai}); echo(t0.am(null));",
            f"ArrOnly t0 = new ArrOnly({ai}); echo(t0.am({ai}));")
        add("R10", "null static-method argument for an array parameter", slot, "echo(ArrOnly.sam(null));", f"echo(ArrOnly.sam({val('float[]', slot)}));")
        add("R10", "null method argument for a primitive parameter", slot, f"echo({val('Animal', slot)}.takes(null));", f"echo({val('Animal', slot)}.takes(1));")
        add("R10", "null in arithmetic", slot, "echo(null + 1);", "echo(1 + 1);")
        add("R10", "null compared with a primitive", slot, f"echo(null == {val('int', slot)});", f"echo(null == {val('Animal', slot)});")
        add("R10", "null as array element", slot, "int[] t0 = {1, null};", "int[] t0 = {1, 2};")
        add("R10", "null member-assigned to a primitive field", slot, f"{val('Animal', slot)}.legs = null;", f"{val('Animal', slot)}.mate = null;")
    add("R10", "null passed to super(...) for an array parameter", "ARRSUB_SUPER", "super(null);", "super(z0);", wrap=False)
    add("R10", "null returned from an int function", "RET_INT", "return null;", "return 1;", wrap=False)
    add("R10", "null returned from an array function", "RET_ARR", "return null;", "return ra;", wrap=False)
    add("R10", "null field initialiser for a primitive", "ANIMAL_FIELDS", "public int nf0 = null;", "public Animal nf0 = null;", wrap=False)
    return out


CELLS = cells()
WRAPS = ["{s}", "{{ {s} }}", "if (true) {{ {s} }}", "for (int w0 = 0; w0 < 1; w0 = w0 + 1) {{ {s} }}", "while (false) {{ {s} }}",
         "if (false) {{ }} else {{ {{ {s} }} }}"]


def build(cell, which, wrap):
    d = dict(DEFAULTS)
    code = cell[which]
    if cell["wrap"]:
        code = WRAPS[wrap].format(s=code)
    d[cell["slot"]] = code
    return SKELETON % d


def cell_key(cell):
    return f"{cell['rule']}|{cell['slot']}|{cell['pos']}"


class C16(Check):
    prop = "C16"
    rule = (f"deterministic matrix of {len(CELLS)} rule x position x type-pair cells (each a violating snippet and its repaired twin in "
            "one slot of a fixed accepted skeleton), every statement-level cell in 6 syntactic embeddings (plain, nested block, "
            "if-branch, for body, while body, else-block); the quick tier runs the whole matrix. non-trivial = the violation sits in a "
            "nested position (not a plain top-level statement of main); distinct = (cell, embedding)")
    assumptions = ["each cell is backed by a sentence of docs/language/semantics.md, bloch_class_system.md, null.md or the property "
                   "statement; only the diagnostic CATEGORY is compared; R9 accepts any rejection"]
    floors = {"__nontrivial__": (1500, 1500)}

    def front(self, srcs, sc):
        names = [sc.write(f"c{i}.bloch", s) for i, s in enumerate(srcs)]
        r = run_proc([self.drv, "front", "--direct"] + names, cwd=sc.dir, timeout=120)
        return r, r.json_lines()

    def judge(self, cell, which, obs):
        if "rawexc" in obs:
            return f"raw exception {obs['rawexc']}"
        if which == "good":
            if not obs.get("ok"):
                return f"the repaired twin is rejected: {obs.get('cat')} {obs.get('msg')}"
            return None
        if obs.get("ok"):
            return "the violating program is accepted"
        if cell["any"]:
            return None
        if obs.get("cat") != "Semantic":
            return f"rejected with category {obs.get('cat')} instead of Semantic: {obs.get('msg')}"
        return None

    def oracle(self, case):
        cell = next(c for c in CELLS if cell_key(c) == case["cell"])
        with Scratch("c16") as sc:
            for which in ("bad", "good"):
                src = build(cell, which, case["wrap"])
                r, objs = self.front([src], sc)
                if r.crashed() or not objs:
                    return {"why": "front end died", **r.brief()}
                w = self.judge(cell, which, objs[0])
                if w:
                    return {"why": f"[{cell['rule']}] {cell['pos']} in {cell['slot']} (embedding {case['wrap']}): {w}",
                            "snippet": cell[which], "which": which}
        return None

    def classify(self, case, why=None):
        return "cell:" + case["cell"]

    def search(self, tier, seed):
        return run_workers(_worker, seed, tier=tier, check=self)


def _worker(widx, wseed, tier, check):
    stats = Stats()
    failures = []
    act = common.active_keys("C16")
    mine = [c for i, c in enumerate(CELLS) if i % 16 == widx]
    with Scratch("c16") as sc:
        jobs = []
        for cell in mine:
            for w in (range(len(WRAPS)) if cell["wrap"] else [0]):
                if "cell:" + cell_key(cell) in act:
                    stats.excluded[cell_key(cell)] = stats.excluded.get(cell_key(cell), 0) + 1
                    continue
                for which in ("bad", "good"):
                    jobs.append((cell, w, which))
        B = 30
        for k in range(0, len(jobs), B):
            chunk = jobs[k:k + B]
            r, objs = check.front([build(c, which, w) for c, w, which in chunk], sc)
            for (c, w, which), o in zip(chunk, objs):
                nested = c["slot"] != "MAIN" or w != 0
                stats.record({"c": cell_key(c), "w": w, "x": which}, nested, tags=[c["rule"]],
                             sample={"cell": cell_key(c), "bad": c["bad"], "good": c["good"]} if which == "bad" else None)
                why = check.judge(c, which, o)
                if why:
                    failures.append({"case": {"cell": cell_key(c), "wrap": w}, "why": f"[{c['rule']}] {c['pos']} in {c['slot']}: {why}"})
            if len(objs) != len(chunk):
                failures.append({"case": {"cell": cell_key(chunk[len(objs)][0]), "wrap": chunk[len(objs)][1]}, "why": "front end died"})
    return {"stats": stats.export(), "failures": failures}


if __name__ == "__main__":
    sys.exit(C16().main(sys.argv[1:]))
