"""C11 — garbage collection is unobservable under every schedule, and race-free.

Schedule independence (metamorphic, hook H5): a program that allocates - objects held only by a pending argument, by a
receiver temporary, by a return value in flight, by a constructor argument list, by a field of a live object, plus
unreachable cycles that give the sweep work - is run under the collection schedules `never`, `every` (collect at every
statement boundary), `natural` (allocation pressure and destroy requests only) and Hypothesis-drawn bit masks over the
statement boundaries.  Oracle: stdout (incl. destructor traces), exit status and diagnostic are those of `never`.
Race-freedom / thread stop: the same programs, stretched so that the real 50 ms timer fires several times, run in a
ThreadSanitizer build with the real timer thread and no schedule hook: any TSan report is a violation; after the evaluator is
destroyed - after normal return and after a runtime error - the process is back to one thread.
What this cannot do: the interleavings of the timer thread with the interpreter are not enumerated; TSan's happens-before
analysis covers the accesses on the executed paths, which is the relevant guarantee for a thread that only stores to atomics.
"""
import os
import sys

from hypothesis import strategies as st

from .. import build as _build
from .. import common, progrun
from ..common import Check, Failure, Scratch, Stats, derive_seed, hyp_search, run_proc, run_workers

PRELUDE = """static class T {
    public static function tr(string s, int v) -> int { echo(s + v); return v; }
}
class P {
    public int v;
    public P buddy;
    public constructor(int v) -> P { this.v = v; this.buddy = null; return this; }
    public function get() -> int { return this.v; }
    public function plus(int k) -> int { return v + k; }
    public destructor() -> void { T.tr("~P:", this.v); }
}
class Q {
    public P held;
    public int extra;
    public constructor(P p, int extra) -> Q { this.held = p; this.extra = extra; }
    public function sum() -> int { return held.v + extra; }
}
class Reg {
    public qubit q;
    public P inner;
    public constructor(P p) -> Reg { this.inner = p; }
    public function val() -> int { return inner.v; }
}
class Node {
    public Node next;
    public int k;
    public constructor(int k) -> Node { this.k = k; this.next = null; }
}
class DNode {
    public DNode up;
    public DNode down;
    public P load;
    public int k;
    public constructor(int k) -> DNode { this.k = k; this.up = null; this.down = null; this.load = new P(k); }
}
class Crate {
    public P label;
    public P cargo;
    public constructor(P l, P c) -> Crate { this.label = l; this.cargo = c; }
}
class PX extends P {
    public int extra;
    public constructor(int v) -> PX { super(v); this.extra = v + 1; }
}
class TCrate extends Crate {
    public int tag;
    public constructor(P l, P c) -> TCrate { super(l, c); this.tag = 5; }
}
class QX extends Q {
    public boolean flag;
    public constructor(P p, int extra) -> QX { super(p, extra); this.flag = true; }
}
function chain(int n) -> DNode {
    DNode root = new DNode(0);
    DNode cur = root;
    int i = 1;
    while (i <= n) {
        DNode nx = new DNode(i);
        nx.up = cur;
        cur.down = nx;
        cur = nx;
        i = i + 1;
    }
    return root;
}
function walk(DNode d) -> int {
    int s = 0;
    DNode cur = d;
    while (cur != null) {
        s = s * 10 + cur.load.v + cur.k;
        cur = cur.down;
    }
    return s;
}
function churn(int n) -> int {
    int i = 0;
    while (i < n) {
        Node a = new Node(i);
        Node b = new Node(i + 1);
        a.next = b;
        b.next = a;
        i = i + 1;
    }
    return n;
}
function use(P p, int k) -> int { return p.v * 1000 + k; }
function use2(P a, P b, int k) -> int { return a.v * 10000 + b.v * 100 + k; }
function mk(int v) -> P { return new P(v); }
function useReg(Reg r, int k) -> int { return r.inner.v * 1000 + k; }
function mkReg(int v) -> Reg { return new Reg(new P(v)); }
function mkq(int v, int n) -> Q { return new Q(new P(v), churn(n)); }
function spin(int n) -> int { int i = 0; int s = 0; while (i < n) { s = s + i % 7; i = i + 1; } return s; }
"""

STMTS = [
    "echo(use(new P({a}), churn({n})));",
    "echo(use2(new P({a}), mk({b}), churn({n})));",
    "echo(new P({a}).plus(churn({n})));",
    "echo(mk({a}).get() + churn({n}));",
    "P x{u} = mk({a}); echo(x{u}.v + churn({n}));",
    "Q q{u} = new Q(new P({a}), churn({n})); echo(q{u}.sum());",
    "Q q{u} = mkq({a}, {n}); echo(q{u}.sum() + churn({n}));",
    "P h{u} = new P({a}); h{u}.buddy = new P({b}); echo(churn({n})); echo(h{u}.buddy.v); destroy h{u};",
    "for (int i{u} = 0; i{u} < {k}; i{u} = i{u} + 1) {{ P t{u} = new P(i{u} + {a}); echo(use(t{u}, churn({n}))); }}",
    "{{ P s{u} = new P({a}); P al{u} = s{u}; destroy s{u}; echo(churn({n})); echo(al{u}.v); }}",
    "echo(churn({n}));",
    "echo(useReg(new Reg(new P({a})), churn({n})));",
    "echo(mkReg({a}).val() + churn({n}));",
    "Reg g{u} = mkReg({a}); echo(churn({n})); echo(g{u}.val()); destroy g{u};",
    "P d{u} = new P({a}); destroy d{u}; echo(churn({n}));",
    # objects with several reference fields: back links to already visited parents before the forward link, a shared first field
    "DNode c{u} = chain({k}); echo(churn({n})); echo(walk(c{u}));",
    "echo(walk(chain({k})) + churn({n}));",
    "DNode c{u} = chain({k}); echo(churn({n})); echo(walk(c{u}.down)); destroy c{u}; echo(churn({n}));",
    "P lab{u} = new P({a}); Crate cr{u} = new Crate(lab{u}, new P({b})); echo(churn({n})); echo(cr{u}.cargo.v + cr{u}.label.v);",
    "P lab{u} = new P({a}); echo(use(new Crate(lab{u}, new P({b})).cargo, churn({n})));",
    # subclasses that add only primitive fields to a base holding references
    "PX h{u} = new PX({a}); h{u}.buddy = new P({b}); echo(churn({n})); echo(h{u}.buddy.v + h{u}.extra); destroy h{u};",
    "P h{u} = new PX({a}); h{u}.buddy = new PX({b}); echo(churn({n})); echo(h{u}.buddy.v);",
    "TCrate cr{u} = new TCrate(new P({a}), new P({b})); echo(churn({n})); echo(cr{u}.cargo.v + cr{u}.label.v + cr{u}.tag);",
    "Q q{u} = new QX(new P({a}), churn({n})); echo(churn({n})); echo(q{u}.sum());",
    "echo(new QX(new P({a}), churn({n})).sum() + churn({n}));",
]
ERR_STMT = "P e{u} = new P({a}); P nul{u} = null; echo(churn({n})); echo(nul{u}.v);"


@st.composite
def gc_case(draw):
    n = draw(st.integers(2, 8))
    lines = []
    for u in range(n):
        t = draw(st.sampled_from(STMTS))
        lines.append(t.format(a=draw(st.integers(1, 9)), b=draw(st.integers(1, 9)), n=draw(st.sampled_from([0, 1, 3, 9, 12, 20])),
                              k=draw(st.integers(1, 3)), u=u))
    if draw(st.integers(0, 6)) == 0:
        lines.append(ERR_STMT.format(a=5, n=10, u=99))
    masks = [draw(st.text(alphabet="01", min_size=1, max_size=24)) for _ in range(3)]
    return {"lines": lines, "masks": masks}


def source(case, spin=0):
    body = "\n".join("    " + ln for ln in case["lines"])
    pre = f"    echo(spin({spin}));\n" if spin else ""
    return PRELUDE + "function main() -> void {\n" + pre + body + "\n}\n"


class C11(Check):
    prop = "C11"
    rule = ("allocation-heavy class programs (temporaries held only by pending arguments / receivers / return values / constructor "
            "argument lists, fields of live objects, unreachable cycles) run under schedules never / every / natural / 3 drawn bit "
            "masks; plus TSan runs with the real timer thread. non-trivial = at least one collection actually ran (collector "
            "counters) in a program whose output depends on an object reachable only from a temporary; distinct = SHA-1 of the case")
    assumptions = ["schedule hook H5 forces/suppresses collections at statement boundaries exactly where the production poll sits",
                   "interleavings of the timer thread are not enumerated; TSan on the executed paths is the evidence offered"]
    floors = {"__nontrivial__": (300, 6000), "collections_ran": (300, 6000), "tsan_runs": (16, 160)}

    def prepare(self):
        super().prepare()
        self.tsan = _build.binary("tsan_runner", "tsan")

    def observe(self, src, mode, sc):
        r = progrun.run_api(self.drv, sc, src, ["--gc", mode, "--dump", "echo,gcstats"])
        if r.timeout:
            return None, None
        if r.crashed() or r.rc != 0:
            return "died", r
        shots = [o for o in r.json_lines() if o.get("phase") in ("shot", "front")]
        if not shots:
            return "died", r
        o = shots[0]
        return {"ok": o.get("ok"), "cat": o.get("cat"), "msg": o.get("msg"), "echo": o.get("echo")}, o.get("gc", [0, 0])

    def run_case(self, case, sc, stats=None):
        src = source(case)
        base, _ = self.observe(src, "never", sc)
        if base is None:
            return None
        if base == "died":
            return {"why": "interpreter died under schedule never", "source": src, **_.brief()}
        if base.get("cat") in ("Lexical", "Parse", "Semantic"):
            return {"why": f"generated program rejected: {base}", "source": src}
        ran = 0
        for mode in ["every", "natural"] + ["mask:" + m for m in case["masks"]]:
            obs, gc = self.observe(src, mode, sc)
            if obs is None:
                continue
            if obs == "died":
                return {"why": f"interpreter died under schedule {mode}", "source": src, **gc.brief()}
            ran += gc[0]
            if obs != base:
                return {"why": f"schedule {mode} changed the observable behaviour", "never": base, mode: obs, "source": src}
        if stats is not None:
            temp = any(("new P(" in ln and ("use" in ln or ").plus" in ln or ").get" in ln or "new Q(" in ln)) or "mk(" in ln
                       for ln in case["lines"])
            stats.record(case, ran > 0 and temp, sample={"main": case["lines"], "masks": case["masks"], "collections": ran},
                         tags=(["collections_ran"] if ran else []) + (["error_path"] if base.get("ok") is False else []))
        return None

    def tsan_case(self, case, sc, stats=None):
        src = source(case, spin=60000)
        p = sc.write("tsan.bloch", src)
        r = run_proc([self.tsan, p, "2"], cwd=sc.dir, timeout=120)
        if r.timeout:
            return None
        if stats is not None:
            stats.count("tsan_runs")
        if "ThreadSanitizer" in r.err or r.rc == 96:
            return {"why": "ThreadSanitizer report with the real collector thread", "source": src, **r.brief()}
        if r.signal or r.rc != 0:
            return {"why": "tsan runner died", "source": src, **r.brief()}
        for ln in r.out.splitlines():
            if ln.startswith("GCTHREAD"):
                f = ln.split()
                if int(f[3]) != 0:
                    return {"why": f"{f[3]} extra thread(s) alive after the evaluator was destroyed", "source": src}
                if stats is not None and f[1] == "1":
                    stats.count("tsan_timer_thread_started")
        return None

    def oracle(self, case):
        with Scratch("c11") as sc:
            if case.get("tsan"):
                return self.tsan_case(case, sc)
            return self.run_case(case, sc)

    def search(self, tier, seed):
        return run_workers(_worker, seed, tier=tier, check=self)


def _worker(widx, wseed, tier, check):
    stats = Stats()
    failures = []
    quick = tier == "quick"
    with Scratch("c11") as sc:
        def prop(case, stats):
            why = check.run_case(case, sc, stats)
            if why is not None:
                raise Failure(why)
        f = hyp_search(gc_case(), prop, wseed, 60 if quick else 1200, stats)
        if f:
            failures.append(f)

        def tprop(case, stats):
            why = check.tsan_case(case, sc, stats)
            if why is not None:
                raise Failure({**why, "tsan": True})
        f = hyp_search(gc_case().map(lambda c: {**c, "tsan": True}), tprop, derive_seed(wseed, "tsan"), 2 if quick else 12, stats)
        if f:
            failures.append(f)
    return {"stats": stats.export(), "failures": failures}


if __name__ == "__main__":
    sys.exit(C11().main(sys.argv[1:]))
