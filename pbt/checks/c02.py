"""C02 — measurement follows the Born rule and collapses to the normalised projection.

Collapse (exact, per case): psi read before and after each measurement, outcome r reported:
  ||P_r psi||^2 > 0 and psi_after == P_r psi / ||P_r psi|| (global phase tolerated), over histories of
  gates and earlier measurements of other qubits.
Born rule (statistical over the simulator's own seeded draws): K re-preparations of a shaped state,
  ones-count k must satisfy |k - K p1| <= 5.5 sqrt(K p1 (1-p1)) + 1, exactly 0 / K when p1 = 0 / 1;
  sequential measurement of all qubits of entangled registers against the joint distribution.
Agreement (program level, pbt/qprog.py): echoed bit = logged outcome = tracked key = collapsed state.
"""
import math
import sys

import numpy as np
from hypothesis import strategies as st

from .. import ref_quantum as rq
from .. import simdrv
from ..common import Check, Failure, Scratch, Stats, derive_seed, hyp_search, run_workers

Z = 5.5


@st.composite
def collapse_case(draw, max_n):
    n = draw(st.integers(1, max_n))
    steps = []
    measured = set()
    nsteps = draw(st.integers(1, 3 * n + 5))
    if n >= 2 and draw(st.booleans()):
        a = draw(st.integers(0, n - 1))
        b = draw(st.integers(0, n - 1).filter(lambda v: v != a))
        steps += [["h", a], ["cx", a, b]]
        if n >= 3 and draw(st.booleans()):
            c = draw(st.integers(0, n - 1).filter(lambda v: v not in (a, b)))
            steps += [["cx", b, c]]
    for _ in range(nsteps):
        free = [q for q in range(n) if q not in measured]
        if not free:
            break
        if draw(st.integers(0, 3)) == 0:
            q = draw(st.sampled_from(free))
            steps.append(["measure", q])
            measured.add(q)
        else:
            g = draw(simdrv.gate_op(n))
            qs = [g[1]] + ([g[2]] if g[0] == "cx" else [])
            if any(q in measured for q in qs):
                continue
            steps.append(list(g))
    free = [q for q in range(n) if q not in measured]
    if free and not any(s[0] == "measure" for s in steps):
        steps.append(["measure", draw(st.sampled_from(free))])
    # near-certain outcomes on purpose
    if free and draw(st.integers(0, 4)) == 0:
        q = draw(st.sampled_from(free))
        if not any(s[0] == "measure" and s[1] == q for s in steps):
            steps = steps + [["ry", q, draw(st.sampled_from([2e-9, math.pi - 2e-9, 1e-6]))], ["measure", q]]
    return {"kind": "collapse", "n": n, "steps": steps}


P_SHAPES = [0.0, 1e-12, 1e-3, 0.1, 0.25, 0.5, 0.75, 0.9, 1 - 1e-3, 1.0]


@st.composite
def born_case(draw, max_n):
    """A shaped state: qubit q prepared with P(1) = p and optionally entangled with partners / surrounded by
    other superposed qubits; measured index q, or a partner that inherits the same marginal."""
    n = draw(st.integers(1, max_n))
    q = draw(st.integers(0, n - 1))
    p = draw(st.sampled_from(P_SHAPES))
    theta = 2 * math.asin(math.sqrt(p))
    prep = [["ry", q, theta]]
    target = q
    others = [k for k in range(n) if k != q]
    for o in others:
        mode = draw(st.integers(0, 3))
        if mode == 0:
            prep.append(["cx", q, o])  # o now carries the same marginal
            if draw(st.booleans()):
                target = o
        elif mode == 1:
            prep.append(["h", o])
        elif mode == 2:
            prep.append(["rx", o, draw(simdrv.angle)])
    if draw(st.booleans()):
        prep.append(["rz", target, draw(simdrv.angle)])  # phases do not change probabilities
    return {"kind": "born", "n": n, "prep": prep, "q": target, "seed": draw(st.integers(0, 2**31 - 1))}


@st.composite
def joint_case(draw, max_n):
    n = draw(st.integers(2, max_n))
    prep = [list(g) for g in draw(st.lists(simdrv.gate_op(n), min_size=2, max_size=2 * n + 3))]
    a = draw(st.integers(0, n - 1))
    b = draw(st.integers(0, n - 1).filter(lambda v: v != a))
    prep = [["h", a], ["cx", a, b]] + prep
    order = draw(st.permutations(list(range(n))))
    return {"kind": "joint", "n": n, "prep": prep, "order": list(order), "seed": draw(st.integers(0, 2**31 - 1))}


@st.composite
def reset_joint_case(draw, max_n):
    """Entangling preparation, then resets of superposed / entangled qubits interleaved with further gates (a fresh coin h(c)
    on purpose), then every qubit measured.  Only the MEASURED outcomes are compared with the distribution quantum mechanics
    predicts for 'reset = discard the qubit and supply |0>' (a mixture over the two branches of the discarded qubit): a
    measurement after a reset must be a fresh Born draw, independent of how the reset happened to go."""
    n = draw(st.integers(2, max_n))
    a = draw(st.integers(0, n - 1))
    b = draw(st.integers(0, n - 1).filter(lambda v: v != a))
    steps = [["ry", a, draw(st.sampled_from([math.pi / 2, 1.0, 2.0, math.pi / 3]))], ["cx", a, b]]
    steps += [list(g) for g in draw(st.lists(simdrv.gate_op(n), max_size=n))]
    steps.append(["reset", a])
    coin = draw(st.integers(0, n - 1).filter(lambda v: v != b))
    if draw(st.integers(0, 2)) > 0:
        steps.append(["h", coin])
    else:
        steps.append(["ry", coin, draw(st.sampled_from([1.0, 2.0, math.pi / 2]))])
    for _ in range(draw(st.integers(0, 3))):
        if draw(st.integers(0, 3)) == 0:
            steps.append(["reset", draw(st.integers(0, n - 1))])
        else:
            steps.append(list(draw(simdrv.gate_op(n))))
    order = draw(st.permutations(list(range(n))))
    return {"kind": "reset_joint", "n": n, "steps": steps, "order": list(order), "seed": draw(st.integers(0, 2**31 - 1))}


class C02(Check):
    prop = "C02"
    rule = ("collapse: random histories (gates + measurements, n<=5/7) checked exactly against the numpy projection; "
            "born: shaped states with p1 in a fixed list measured K times from seeded draws (binomial bound z=5.5); "
            "joint: sequential measurement of all qubits of an entangled register vs |amp|^2 (cells z=5.5). "
            "non-trivial = a measurement with 0<p1<1 whose qubit is entangled with another one, or a 3+-qubit partial "
            "measurement; distinct = SHA-1 of the case")
    assumptions = ["numpy reference", "statistical bound z=5.5: per-test false-alarm probability < 4e-8; seeds are deterministic",
                   "outcome log and amplitude accessor are the BLOCH_VERIF hooks"]
    floors = {"__nontrivial__": (400, 4000), "entangled_measure": (200, 2000), "born_tests": (100, 1000),
              "p_extreme": (20, 200)}

    K = 4000

    def collapse_oracle(self, case, sc, stats=None):
        n = case["n"]
        ops = [("new",)] + [("alloc",)] * n
        for s in case["steps"]:
            if s[0] == "measure":
                ops += [("dump",), tuple(s), ("dump",)]
            else:
                ops.append(tuple(s))
        r = simdrv.run_script(self.drv, sc, ops)
        if r.timeout:
            if stats is not None:
                stats.inconclusive += 1
            return None
        if r.crashed() or r.rc != 0:
            return {"why": "simulator process died", **r.brief()}
        objs = r.json_lines()
        errs = [o for o in objs if o.get("ok") is False]
        if errs:
            return {"why": "simulator raised on a valid history", "obs": errs[0]}
        seq = [o for o in objs if "state" in o or "measure" in o]
        nm = sum(1 for s in case["steps"] if s[0] == "measure")
        if len(seq) != 3 * nm:
            return {"why": "unexpected driver output", **r.brief()}
        nontriv = False
        tags = ["collapse"]
        for i in range(nm):
            before = rq.from_json(seq[3 * i]["state"])
            q, res = seq[3 * i + 1]["measure"], seq[3 * i + 1]["r"]
            after = rq.from_json(seq[3 * i + 2]["state"])
            if res not in (0, 1):
                return {"why": f"measure returned {res}"}
            want, p = rq.project(before, q, res)
            if p <= 0:
                return {"why": f"measure q{q} reported outcome {res} of probability 0", "before": seq[3 * i]["state"]}
            if not np.all(np.isfinite(after)):
                return {"why": "non-finite amplitudes after measurement"}
            if not rq.equal_up_to_phase(after, want, tol=1e-9):
                return {"why": f"state after measuring q{q} -> {res} is not the normalised projection "
                               f"(fidelity {rq.fidelity(after, want):.12f}, norm {np.linalg.norm(after):.12f})",
                        "before": seq[3 * i]["state"], "after": seq[3 * i + 2]["state"]}
            p1 = rq.prob1(before, q)
            if 1e-9 < p1 < 1 - 1e-9:
                if rq.schmidt_entangled(before, q):
                    nontriv = True
                    tags.append("entangled_measure")
                elif n >= 3:
                    nontriv = True
            else:
                tags.append("p_extreme")
        if stats is not None:
            stats.record(case, nontriv, sample=case, tags=tags)
        return None

    def born_oracle(self, case, sc, stats=None):
        n, q = case["n"], case["q"]
        K = self.K
        ops = [("seed", case["seed"]), ("repeat", K)] + [("alloc",)] * n + [tuple(p) for p in case["prep"]] + \
              [("measure", q), ("end",)]
        r = simdrv.run_script(self.drv, sc, ops, timeout=120)
        if r.timeout:
            if stats is not None:
                stats.inconclusive += 1
            return None
        if r.crashed() or r.rc != 0:
            return {"why": "simulator process died", **r.brief()}
        objs = [o for o in r.json_lines() if "repeat" in o]
        if len(objs) != 1:
            return {"why": "unexpected driver output", **r.brief()}
        ones = 0
        for br in objs[0]["branches"]:
            if br["key"].startswith("ERR"):
                return {"why": "simulator raised on a valid history", "obs": br["key"]}
            if br["key"] == f"m{q}=1;":
                ones += br["count"]
            elif br["key"] != f"m{q}=0;":
                return {"why": f"unexpected outcome log {br['key']!r}"}
        psi = simdrv.ref_run([tuple(p) for p in case["prep"]], n)
        p1 = min(1.0, max(0.0, rq.prob1(psi, q)))  # rounding can leave 1 + 1e-16
        if stats is not None:
            tags = ["born_tests"]
            ent = rq.schmidt_entangled(psi, q)
            if ent:
                tags.append("entangled_measure")
            if p1 < 1e-9 or p1 > 1 - 1e-9:
                tags.append("p_extreme")
            stats.record(case, ent and 1e-9 < p1 < 1 - 1e-9, sample=case, tags=tags)
        if p1 <= 1e-15 and ones != 0:
            return {"why": f"P(1)=0 but {ones}/{K} ones"}
        if p1 >= 1 - 1e-15 and ones != K:
            return {"why": f"P(1)=1 but only {ones}/{K} ones"}
        bound = Z * math.sqrt(max(0.0, K * p1 * (1 - p1))) + 1
        if abs(ones - K * p1) > bound:
            return {"why": f"Born rule: {ones}/{K} ones, expected {K * p1:.1f} +- {bound:.1f} (p1={p1:.6g})"}
        return None

    def joint_oracle(self, case, sc, stats=None):
        n = case["n"]
        K = self.K
        ops = [("seed", case["seed"]), ("repeat", K)] + [("alloc",)] * n + [tuple(p) for p in case["prep"]] + \
              [("measure", q) for q in case["order"]] + [("end",)]
        r = simdrv.run_script(self.drv, sc, ops, timeout=120)
        if r.timeout:
            if stats is not None:
                stats.inconclusive += 1
            return None
        if r.crashed() or r.rc != 0:
            return {"why": "simulator process died", **r.brief()}
        objs = [o for o in r.json_lines() if "repeat" in o]
        if len(objs) != 1:
            return {"why": "unexpected driver output", **r.brief()}
        psi = simdrv.ref_run([tuple(p) for p in case["prep"]], n)
        probs = np.abs(psi) ** 2
        counts = np.zeros(1 << n)
        for br in objs[0]["branches"]:
            if br["key"].startswith("ERR"):
                return {"why": "simulator raised on a valid history", "obs": br["key"]}
            b = 0
            for item in br["key"].strip(";").split(";"):
                qq, v = item[1:].split("=")
                b |= int(v) << int(qq)
            counts[b] += br["count"]
            # the final state of each branch must be the basis state it reports
            fin = rq.from_json(br["state"])
            want = np.zeros(1 << n, dtype=complex)
            want[b] = 1
            if not rq.equal_up_to_phase(fin, want, tol=1e-9):
                return {"why": f"after measuring all qubits as {b:0{n}b} the state is not that basis state"}
        if stats is not None:
            stats.record(case, True, sample=case, tags=["joint", "entangled_measure", "born_tests"])
        for b in range(1 << n):
            p = float(probs[b])
            if p <= 1e-15:
                if counts[b] != 0:
                    return {"why": f"joint outcome {b:0{n}b} has probability 0 but occurred {int(counts[b])} times"}
                continue
            bound = Z * math.sqrt(max(0.0, K * p * (1 - p))) + 1
            if abs(counts[b] - K * p) > bound:
                return {"why": f"joint distribution: outcome {b:0{n}b} seen {int(counts[b])}/{K}, expected {K * p:.1f} +- {bound:.1f}"}
        return None

    def reset_joint_oracle(self, case, sc, stats=None):
        n = case["n"]
        K = self.K
        ops = [("seed", case["seed"]), ("repeat", K)] + [("alloc",)] * n + [tuple(p) for p in case["steps"]] + \
              [("measure", q) for q in case["order"]] + [("end",)]
        r = simdrv.run_script(self.drv, sc, ops, timeout=120)
        if r.timeout:
            if stats is not None:
                stats.inconclusive += 1
            return None
        if r.crashed() or r.rc != 0:
            return {"why": "simulator process died", **r.brief()}
        objs = [o for o in r.json_lines() if "repeat" in o]
        if len(objs) != 1:
            return {"why": "unexpected driver output", **r.brief()}
        # reference: mixture over the branches of every reset
        mix = [(1.0, rq.zero_state(n))]
        random_reset = False
        for st_ in case["steps"]:
            if st_[0] != "reset":
                mix = [(w, rq.apply(psi, tuple(st_))) for w, psi in mix]
                continue
            q = st_[1]
            nxt = []
            for w, psi in mix:
                p1 = rq.prob1(psi, q)
                if 1e-9 < p1 < 1 - 1e-9:
                    random_reset = True
                for res, pr in ((0, 1 - p1), (1, p1)):
                    if pr <= 1e-15:
                        continue
                    proj, _ = rq.project(psi, q, res)
                    if res == 1:
                        proj = rq.apply(proj, ("x", q))
                    nxt.append((w * pr, proj))
            mix = nxt
        probs = np.zeros(1 << n)
        for w, psi in mix:
            probs += w * np.abs(psi) ** 2
        counts = np.zeros(1 << n)
        for br in objs[0]["branches"]:
            if br["key"].startswith("ERR"):
                return {"why": "simulator raised on a valid history", "obs": br["key"]}
            b = 0
            for item in br["key"].strip(";").split(";"):
                if item[0] != "m":
                    continue  # the hidden branch of a reset is not an observable
                qq, v = item[1:].split("=")
                b |= int(v) << int(qq)
            counts[b] += br["count"]
        if stats is not None:
            stats.record(case, random_reset, sample=case, tags=["reset_then_measure", "born_tests"])
        for b in range(1 << n):
            p = float(probs[b])
            if p <= 1e-12:
                if counts[b] != 0:
                    return {"why": f"measured outcome {b:0{n}b} after reset(s) has probability 0 but occurred {int(counts[b])} times"}
                continue
            bound = Z * math.sqrt(max(0.0, K * p * (1 - p))) + 1
            if abs(counts[b] - K * p) > bound:
                return {"why": f"measurements after reset(s): outcome {b:0{n}b} seen {int(counts[b])}/{K}, expected {K * p:.1f} +- {bound:.1f} "
                               f"(a measurement after a reset is not an independent Born draw)"}
        return None

    def oracle(self, case):
        with Scratch("c02") as sc:
            k = case["kind"]
            if k == "collapse":
                return self.collapse_oracle(case, sc)
            if k == "born":
                return self.born_oracle(case, sc)
            if k == "joint":
                return self.joint_oracle(case, sc)
            if k == "reset_joint":
                return self.reset_joint_oracle(case, sc)
            if k == "program":
                from .. import qchecks
                return qchecks.c02_program_oracle(self, case, sc)
        return None

    def search(self, tier, seed):
        return run_workers(_worker, seed, tier=tier, check=self)


def _worker(widx, wseed, tier, check):
    stats = Stats()
    failures = []
    quick = tier == "quick"
    with Scratch("c02") as sc:
        plan = [
            (collapse_case(5 if quick else 7), check.collapse_oracle, 700 if quick else 15000, "collapse"),
            (born_case(4 if quick else 6), check.born_oracle, 60 if quick else 1200, "born"),
            (joint_case(3 if quick else 5), check.joint_oracle, 25 if quick else 500, "joint"),
            (reset_joint_case(3 if quick else 5), check.reset_joint_oracle, 25 if quick else 500, "reset_joint"),
        ]
        for strat, orc, n, tag in plan:
            def prop(case, stats, orc=orc):
                why = orc(case, sc, stats)
                if why is not None:
                    raise Failure(why)
            f = hyp_search(strat, prop, derive_seed(wseed, tag), n, stats)
            if f:
                failures.append(f)
        from .. import qchecks as qprog
        if True:
            f = qprog.c02_program_search(check, sc, derive_seed(wseed, "prog"), 120 if quick else 2500, stats)
            if f:
                failures.append(f)
    return {"stats": stats.export(), "failures": failures}


if __name__ == "__main__":
    sys.exit(C02().main(sys.argv[1:]))
