"""C14 — the parser realises the documented grammar: render -> parse round-trips.

A syntax tree over the documented constructs (pbt/syntree.py) is rendered with the minimal parentheses the documented
precedence/associativity require (and, in a second mode, with redundant parentheses and random trivia) and parsed by the
real lexer+parser (`verifdrv parse`).  Oracle: the source is accepted and the dumped AST equals the S-expression computed
from the tree (parenthesis nodes transparent; `x = e;` one shape whether statement or expression).
Kept out: exactly the inherently ambiguous token shape `Ident < type-ish tokens > Ident` where a type could start.
"""
import sys

from hypothesis import strategies as st

from .. import common, syntree
from ..common import Check, Failure, Scratch, Stats, derive_seed, hyp_search, run_proc, run_workers


@st.composite
def tree_case(draw, max_leaves, what):
    if what == "expr":
        e = draw(syntree.expr_strategy(max_leaves))
        prog = [["fn", "main", [], [], ["void"], [["echo", e]]]]
    elif what == "stmt":
        body = draw(st.lists(syntree.stmt_strategy(max_leaves), min_size=1, max_size=4))
        prog = [["fn", "main", [], [], ["void"], body]]
    else:
        prog = draw(syntree.program_strategy(max_leaves))
    redundant = draw(st.booleans())
    r = syntree.Renderer(draw if redundant else None, redundant)
    try:
        toks = r.program(prog)
    except syntree.Discard:
        return {"discard": True}
    src = syntree.join_tokens(toks, draw if redundant else None)
    return {"prog": prog, "src": src, "redundant": redundant}


def mentions(prog, pred):
    hit = []

    def walk(x):
        if isinstance(x, list):
            if pred(x):
                hit.append(1)
            for y in x:
                walk(y)

    walk(prog)
    return bool(hit)


SIGNATURES = {
    "method-quantum-annotation": lambda p: mentions(p, lambda x: len(x) == 8 and x[0] == "method" and x[3]),
    "for-init-long-boolean": lambda p: mentions(p, lambda x: len(x) == 5 and x[0] == "for" and isinstance(x[1], list) and x[1] and
                                                x[1][0] == "decl" and x[1][1] in (["prim", "long"], ["prim", "boolean"])),
}


class C14(Check):
    prop = "C14"
    rule = ("syntax trees (expressions / statement lists / whole programs with functions and classes, <=25/60 leaves) rendered "
            "with minimal or redundant parentheses and random trivia; non-trivial = the tree has two adjacent binary operators of "
            "different levels, or a prefix/cast applied to a postfix form, or an annotated/modified class member; distinct = "
            "SHA-1 of (tree, source)")
    assumptions = ["precedence table and associativity as documented in docs/grammar.md",
                   "one inherently ambiguous token shape excluded (counted as discarded)"]
    floors = {"__nontrivial__": (6000, 60000), "prefix_of_postfix": (1000, 10000), "annotated_member": (500, 5000)}

    def run_case(self, case, sc, stats=None):
        if case.get("discard"):
            if stats is not None:
                stats.count("discarded_ambiguous")
            return None
        src = case["src"]
        p = sc.write("t.bloch", src)
        r = run_proc([self.drv, "parse", p])
        if r.timeout:
            if stats is not None:
                stats.inconclusive += 1
            return None
        if r.crashed() or r.rc != 0:
            return {"why": "parser process died", "source": src, **r.brief()}
        objs = r.json_lines()
        if len(objs) != 1:
            return {"why": "no result", **r.brief()}
        obs = objs[0]
        want = syntree.program_sexpr(case["prog"])
        if stats is not None:
            feats = syntree.nontrivial(case["prog"])
            stats.record({"p": case["prog"], "s": src}, bool(feats), sample={"source": src, "sexpr": want} if len(src) < 400 else None,
                         tags=feats + (["redundant_parens"] if case["redundant"] else ["minimal_parens"]))
        if not obs.get("ok"):
            return {"why": f"grammatical source rejected: {obs.get('cat')} at {obs.get('line')}:{obs.get('col')} {obs.get('msg')}",
                    "source": src}
        if obs["sexpr"] != want:
            return {"why": "parsed tree differs from the tree that was rendered", "source": src, "expected": want, "got": obs["sexpr"]}
        return None

    def oracle(self, case):
        with Scratch("c14") as sc:
            return self.run_case(case, sc)

    def classify(self, case, why=None):
        if case.get("discard"):
            return None
        for k, pred in SIGNATURES.items():
            if pred(case["prog"]):
                return k
        return None

    def search(self, tier, seed):
        return run_workers(_worker, seed, tier=tier, check=self)


def _worker(widx, wseed, tier, check):
    stats = Stats()
    failures = []
    quick = tier == "quick"
    act = common.active_keys("C14")
    with Scratch("c14") as sc:
        def prop(case, stats):
            if not case.get("discard"):
                for k in act:
                    if SIGNATURES[k](case["prog"]):
                        stats.excluded[k] = stats.excluded.get(k, 0) + 1
                        return
            why = check.run_case(case, sc, stats)
            if why is not None:
                raise Failure(why)
        ml = 25 if quick else 60
        for what, n in (("expr", 1500 if quick else 20000), ("stmt", 900 if quick else 12000), ("prog", 900 if quick else 12000)):
            f = hyp_search(tree_case(ml, what), prop, derive_seed(wseed, what), n, stats)
            if f:
                failures.append(f)
    return {"stats": stats.export(), "failures": failures}


if __name__ == "__main__":
    sys.exit(C14().main(sys.argv[1:]))
