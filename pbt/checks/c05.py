"""C05 — the emitted OpenQASM 2.0 replays to the same quantum state as the simulation.

Generator: `quantum` profile (pbt/qprog.py), seeded runs through the API pipeline (`verifdrv run`) and through the CLI.
Oracle:
 (1) well-formed: a strict OpenQASM-2 subset parser accepts the text (exact header, one qreg/creg of equal size, statement
     grammar, indices in range, cx operands distinct, measure q[i] -> c[i]);
 (2) complete, once, in order: the abstract interpreter of the generated program, driven by the logged outcomes to take the
     same branches, yields the expected operation sequence (explicit ops, implicit resets on qubit release and re-use);
     kinds, order, operand handles (one consistent handle -> index map, live handles never share an index) and angles (6
     decimals) must match the QASM line by line; qreg size == simulator qubit count == number of distinct indices used;
 (3) replay: an independent numpy interpreter executes the QASM forcing the logged measure/reset branches (a forced branch
     of probability < 1e-12 is itself a violation); the result equals the simulator's final amplitudes up to global phase;
 (4) CLI: the .qasm file written next to the source equals what --emit-qasm prints (single-shot and multi-shot).
"""
import math
import os
import sys

import numpy as np
from hypothesis import strategies as st

from .. import common, progrun, qprog
from .. import ref_quantum as rq
from ..common import Check, Failure, Scratch, Stats, derive_seed, hyp_search, run_proc, run_workers


def replay(n, qops, outcomes):
    """Executes parsed QASM on the numpy reference forcing logged branches.  Returns (state, None) or (None, reason)."""
    psi = rq.zero_state(n) if n > 0 else np.array([1], dtype=complex)
    oi = 0
    nrot = 0
    for k, idx, ang in qops:
        if k in ("measure", "reset"):
            if oi >= len(outcomes):
                return None, "more measure/reset lines in the QASM than logged outcomes"
            o = outcomes[oi]
            oi += 1
            if o[0] != ("m" if k == "measure" else "r") or o[1] != idx[0]:
                return None, f"QASM line {k} q[{idx[0]}] does not correspond to logged outcome {o}"
            if k == "measure":
                psi, p = rq.project(psi, idx[0], o[2])
            else:
                psi, p = rq.reset_branch(psi, idx[0], o[2])
            if p < 1e-12:
                return None, f"logged branch {o} has probability {p:.3g} in the replay"
        elif k == "cx":
            psi = rq.apply(psi, ("cx", idx[0], idx[1]))
        elif k in ("rx", "ry", "rz"):
            nrot += 1
            psi = rq.apply(psi, (k, idx[0], ang))
        else:
            psi = rq.apply(psi, (k, idx[0]))
    if oi != len(outcomes):
        return None, f"{len(outcomes) - oi} logged measure/reset outcomes have no QASM line"
    return (psi, nrot), None


class C05(Check):
    prop = "C05"
    rule = ("generated quantum programs (<=7/9 qubits; gates via direct calls, @quantum functions, nested calls, static methods, "
            "methods on this.q / bare fields, qubit[] elements; measure stmt/expr/array; reset; branches on measured bits; loops; "
            "object destruction and index re-use; @tracked) with seeded RNG. non-trivial = >=1 two-qubit gate and >=1 of {branch on a "
            "measured bit, reset, index re-use, method/field access path}; distinct = SHA-1 of the program")
    assumptions = ["the abstract interpreter in pbt/qprog.py models which operations a program performs (implicit resets on release "
                   "and on re-use included)", "numpy OpenQASM interpreter", "outcome log / amplitude / seed hooks"]
    floors = {"__nontrivial__": (400, 8000), "reuse": (60, 1000), "branch_on_bit": (150, 3000), "cli_compared": (40, 400)}

    def run_case(self, p, sc, stats=None, cli=False):
        src = qprog.render(p)
        r = progrun.run_api(self.drv, sc, src, ["--seed", str(p["seed"]), "--dump", "echo,tracked,qasm,state,outcomes"])
        if r.timeout:
            if stats is not None:
                stats.inconclusive += 1
            return None
        if r.crashed() or r.rc != 0:
            return {"why": "interpreter died", "source": src, **r.brief()}
        objs = [o for o in r.json_lines() if o.get("phase") in ("shot", "front")]
        if not objs:
            return {"why": "no result", **r.brief()}
        o = objs[0]
        if o.get("phase") == "front":
            return {"why": f"generated program rejected: {o.get('cat')} {o.get('msg')}", "source": src}
        if not o.get("ok"):
            if _has(p["main"], "cxalias") and o.get("cat") == "Runtime":
                # cx on one and the same qubit is not a gate: refusing it with a runtime diagnostic is fine; what was emitted
                # up to that point must still be well-formed
                try:
                    qprog.parse_qasm(o.get("qasm", qprog.HEADER + "qreg q[0];\ncreg c[0];\n"))
                except ValueError as e:
                    return {"why": f"QASM not well-formed: {e}", "source": src, "qasm": o.get("qasm")}
                if stats is not None:
                    stats.record(p, False, tags=["alias_refused"])
                return None
            return {"why": f"valid program failed at run time: {o.get('msg')}", "source": src}
        qasm = o["qasm"]
        outcomes = o["outcomes"]
        # (1)
        try:
            n, qops = qprog.parse_qasm(qasm)
        except ValueError as e:
            return {"why": f"QASM not well-formed: {e}", "source": src, "qasm": qasm}
        # (2)
        try:
            it = qprog.Interp(p, outcomes).run()
        except qprog.ModelError as e:
            return {"why": f"outcome log inconsistent with the program: {e}", "source": src, "qasm": qasm}
        if it.oi != len(outcomes):
            return {"why": f"{len(outcomes) - it.oi} logged outcomes beyond what the program performs", "source": src}
        hmap, why = qprog.match_ops(it.ops, qops)
        if why:
            return {"why": why, "source": src, "qasm": qasm}
        # logged outcome qubit indices agree with the handle map
        oi = 0
        for e in it.ops:
            if e["kind"] in ("measure", "reset"):
                if outcomes[oi][1] != hmap[e["hs"][0]]:
                    return {"why": f"outcome log entry {outcomes[oi]} is not on the qubit of handle {e['hs'][0]}"}
                oi += 1
        used = set(hmap.values())
        # qubits that were allocated but never operated on still count for the register size
        nalloc = sum(1 for e in it.ops if e["kind"] == "alloc")
        if n != o["nq"]:
            return {"why": f"qreg q[{n}] but the simulator holds {o['nq']} qubits", "qasm": qasm}
        if n != nalloc or len(used) > n:
            return {"why": f"qreg q[{n}] but the program allocated {nalloc} simulator qubits (indices used: {sorted(used)})",
                    "source": src, "qasm": qasm}
        # (3)
        res, why = replay(n, qops, outcomes)
        if why:
            return {"why": "replay: " + why, "source": src, "qasm": qasm}
        psi, nrot = res
        got = rq.from_json(o["state"])
        if len(got) != len(psi) or not rq.equal_up_to_phase(got, psi, tol=1e-6 * (nrot + 1)):
            return {"why": f"replaying the QASM gives a different final state (fidelity {rq.fidelity(got, psi):.9f})",
                    "source": src, "qasm": qasm}
        # echo agrees with the model
        if o["echo"] != it.echo:
            return {"why": f"echoed bits {o['echo']} differ from the logged outcomes {it.echo}", "source": src}
        tags = []
        kinds = [e["kind"] for e in it.ops]
        if any(e.get("implicit") == "reuse" for e in it.ops):
            tags.append("reuse")
        if _has(p["main"], "ifbit"):
            tags.append("branch_on_bit")
        if "reset" in kinds:
            tags.append("has_reset")
        if any(s[0] == "gate" and s[2] in ("self", "static", "nested") for s in _walk(p["main"])) or \
                any(e["hs"] and e["hs"][0][0] in ("field", "felem") for e in it.ops):
            tags.append("method_or_field_path")
        nt = "cx" in kinds and bool(tags)
        # (4)
        if cli:
            w = self.cli_compare(p, src, sc)
            tags.append("cli_compared")
            if w:
                return w
        if stats is not None:
            stats.record(p, nt, sample={"source": src[src.index("function main"):], "qasm": qasm} if len(qasm) < 700 else None, tags=tags)
        return None

    def cli_compare(self, p, src, sc):
        for args in (["--emit-qasm"], ["--emit-qasm", "--shots=3"]):
            r = progrun.run_cli(self.drv, sc, src, args, name="cliq.bloch")
            if r.proc.timeout:
                return None
            if (not r.proc.crashed()) and r.rc == 1 and "requires two distinct qubits" in " ".join(r.stderr_lines[-2:]) and \
                    any(s[0] == "cxalias" for s in _walk(p["main"])):
                # the CLI draws its own measurement outcomes: this run took a branch in which the program applies cx to one
                # qubit twice, which is refused with a diagnostic (allowed, see run_case); nothing to compare
                continue
            if r.proc.crashed() or r.rc != 0:
                return {"why": f"CLI run failed: {r.stderr_lines[-2:]}", "source": src, **r.proc.brief()}
            try:
                with open(r.qasm_path) as f:
                    filetext = f.read()
            except OSError:
                return {"why": "no .qasm file written next to the source"}
            out = r.proc.out
            k = out.find("OPENQASM 2.0;")
            if k < 0 or out[k:] != filetext:
                return {"why": f"--emit-qasm output differs from the .qasm file ({args})", "file": filetext[:400], "stdout": out[k:][:400]}
            try:
                qprog.parse_qasm(filetext)
            except ValueError as e:
                return {"why": f"QASM file not well-formed: {e}"}
        return None

    def oracle(self, case):
        with Scratch("c05") as sc:
            return self.run_case(case, sc, cli=True)

    def search(self, tier, seed):
        return run_workers(_worker, seed, tier=tier, check=self)


def _walk(stmts):
    for s in stmts:
        yield s
        if s[0] == "ifbit":
            yield from _walk(s[2])
            yield from _walk(s[3])
        elif s[0] == "block":
            yield from _walk(s[1])


def _has(stmts, kind):
    return any(s[0] == kind for s in _walk(stmts))


def _worker(widx, wseed, tier, check):
    stats = Stats()
    failures = []
    quick = tier == "quick"
    with Scratch("c05") as sc:
        cnt = [0]

        def prop(case, stats):
            cnt[0] += 1
            why = check.run_case(case, sc, stats, cli=(cnt[0] % 12 == 0))
            if why is not None:
                raise Failure(why)
        f = hyp_search(qprog.qprogram(max_q=7 if quick else 9, nstmts=16 if quick else 24, alias=True), prop, wseed,
                       350 if quick else 6000, stats)
        if f:
            failures.append(f)
    return {"stats": stats.export(), "failures": failures}


if __name__ == "__main__":
    sys.exit(C05().main(sys.argv[1:]))
