"""C15 — the lexer is lossless and token positions are exact.

Oracle (source-offset model, written from the property statement and token.hpp's contract
"Line/column are 1-based and point to the start of the token"): with off(line, col) computed
from the source alone (lines split at '\\n', one column per byte), every token must satisfy
src[off : off+len(text)] == text, offsets strictly increase without overlap, and every gap
(and the prefix/suffix) consists of whitespace and // comments only.  When lexemes were
generated separated by non-empty trivia each must come back as exactly one token.
Rejected inputs: exactly one Lexical diagnostic with 1 <= line <= number of lines.
"""
import os
import re
import sys

from hypothesis import strategies as st

from .. import common
from ..common import Check, Failure, Scratch, Stats, hyp_search, run_proc, run_workers

KEYWORDS = ("null int long float string char qubit bit boolean true false void function return if else for "
            "while measure final reset default quantum tracked shots class public private protected static "
            "extends abstract virtual override super this import package new constructor destructor destroy "
            "echo").split()
OPERATORS = ["=", "==", "!", "!=", "+", "++", "&", "&&", "|", "||", "^", "~", "-", "--", "->", "*", "/", "%",
             ">", ">=", "<", "<=", "?", ":", ".", ";", ",", "@", "(", ")", "{", "}", "[", "]"]
UNKNOWN = ["#", "$", "\\", "`", "\x80", "\xe9", "\xff", "\x01", "\x7f"]

GAP_RE = re.compile(r"(?:[ \t\n\r\f\v]|//[^\n]*)*\Z")

ident = st.from_regex(r"[A-Za-z_][A-Za-z0-9_]{0,6}", fullmatch=True)
inner_chars = st.sampled_from(list("ab \t\n\r/'=+-*<>&|.;@#\\f1") + ["//", "\xe9", "\n\n"])
string_lit = st.lists(inner_chars, max_size=8).map(lambda xs: '"' + "".join(xs) + '"')
char_lit = st.sampled_from(list("ab1 \t\n\r/'\"=+\\@#") + ["\xe9"]).map(lambda c: "'" + c + "'")
number = st.one_of(
    st.from_regex(r"[0-9]{1,6}", fullmatch=True),
    st.from_regex(r"[0-9]{1,5}L", fullmatch=True),
    st.from_regex(r"[0-9]{1,4}\.[0-9]{0,4}f", fullmatch=True),
    st.from_regex(r"[0-9]{1,4}f", fullmatch=True),
    st.sampled_from(["0b", "1b"]),
)
lexeme = st.one_of(ident, st.sampled_from(KEYWORDS), number, string_lit, char_lit, st.sampled_from(OPERATORS),
                   st.sampled_from(UNKNOWN))
comment = st.lists(st.sampled_from(list("ab \t\"'/=+-<>;") + ["//", "\xe9", "\r"]), max_size=8).map(
    lambda xs: "//" + "".join(xs) + "\n")
ws = st.sampled_from([" ", "\t", "\n", "\r\n", "  ", "\n\n", "\v", "\f", " \t ", "\n  "])
trivia_nonempty = st.lists(st.one_of(ws, ws, comment), min_size=1, max_size=3).map("".join)
trivia_any = st.one_of(st.just(""), st.just(""), trivia_nonempty)


@st.composite
def separated_case(draw):
    n = draw(st.integers(1, 12))
    parts = [draw(trivia_any)]
    lexs = []
    for _ in range(n):
        lx = draw(lexeme)
        lexs.append(lx)
        parts.append(lx)
        tr = draw(trivia_nonempty)
        if lx == "/" and tr.startswith("/"):
            tr = " " + tr  # "/" + "//c" reads as the comment "//" + "/c": not a separated lexeme
        parts.append(tr)
    tail_eof = draw(st.booleans())
    if tail_eof:  # last lexeme directly followed by end of input
        parts.pop()
    return {"src": "".join(parts), "lexemes": lexs}


@st.composite
def adjacent_case(draw):
    n = draw(st.integers(1, 12))
    parts = []
    for _ in range(n):
        parts.append(draw(lexeme))
        parts.append(draw(trivia_any))
    return {"src": "".join(parts), "lexemes": None}


raw_alphabet = list("ab1 \n\t\"'/.=+-<>&|fLb_0@#\r!") + ["\xe9", "//", "1.5", "2b", "'a'", '"x"']
raw_case = st.lists(st.sampled_from(raw_alphabet), min_size=0, max_size=30).map(
    lambda xs: {"src": "".join(xs), "lexemes": None})

case_strategy = st.one_of(separated_case(), adjacent_case(), raw_case)


def offsets_of_lines(src):
    starts = [0]
    for i, ch in enumerate(src):
        if ch == "\n":
            starts.append(i + 1)
    return starts


def check_tokens(src, obs, lexemes):
    """Returns None or a failure string.  `src` is text with one char per byte (latin-1)."""
    nlines = src.count("\n") + 1
    if "rawexc" in obs:
        return f"raw exception {obs['rawexc']}: {obs.get('what')}"
    if not obs.get("ok"):
        if obs.get("cat") != "Lexical":
            return f"lexer rejected with category {obs.get('cat')}"
        if not (1 <= obs.get("line", 0) <= nlines):
            return f"Lexical diagnostic line {obs.get('line')} outside 1..{nlines}"
        return None
    toks = obs["tokens"]
    if not toks or toks[-1][0] != "Eof":
        return "token list does not end with Eof"
    toks = toks[:-1]
    starts = offsets_of_lines(src)
    pos = 0
    for i, (ty, text, line, col) in enumerate(toks):
        if not (1 <= line <= len(starts)) or col < 1:
            return f"token {i} {text!r} reported at impossible position Ln {line}, Col {col}"
        off = starts[line - 1] + col - 1
        if text == "":
            return f"token {i} has empty text"
        if src[off:off + len(text)] != text:
            return (f"token {i} {text!r} reported at Ln {line}, Col {col} but the source has "
                    f"{src[off:off + len(text)]!r} there")
        # the reported column must lie on the reported line (not run past its newline)
        if off < pos:
            return f"token {i} {text!r} at offset {off} overlaps or precedes the previous token (ends at {pos})"
        if not GAP_RE.match(src[pos:off]):
            return f"gap before token {i} {text!r} is not whitespace/comments: {src[pos:off]!r}"
        pos = off + len(text)
    if not GAP_RE.match(src[pos:]):
        return f"text after the last token is not whitespace/comments: {src[pos:]!r}"
    if lexemes is not None:
        got = [t[1] for t in toks]
        if got != lexemes:
            return f"separated lexemes {lexemes!r} came back as {got!r}"
        for (ty, text, _, _), lx in zip(toks, lexemes):
            want_kw = lx in KEYWORDS
            if want_kw and ty in ("Identifier",):
                return f"keyword {lx!r} classified as Identifier"
            if (not want_kw) and re.fullmatch(r"[A-Za-z_][A-Za-z0-9_]*", lx) and ty != "Identifier":
                return f"identifier {lx!r} classified as {ty}"
    return None


def nontrivial(src, obs):
    if not obs.get("ok"):
        return False
    toks = obs["tokens"][:-1]
    spans_nl = any("\n" in t[1] for t in toks)
    quote_in = any((t[0] == "StringLiteral" and ("//" in t[1] or "'" in t[1])) for t in toks) or \
        bool(re.search(r"//[^\n]*[\"']", src))
    adjacent = False
    starts = offsets_of_lines(src)
    prev_end = None
    for ty, text, line, col in toks:
        if 1 <= line <= len(starts):
            off = starts[line - 1] + col - 1
            if prev_end is not None and off == prev_end:
                adjacent = True
            prev_end = off + len(text)
    return spans_nl or quote_in or adjacent


def has_multiline_token(src):
    # string or char literal containing a newline (decided on the source alone)
    i, n = 0, len(src)
    while i < n:
        c = src[i]
        if c == "/" and src[i + 1:i + 2] == "/":
            j = src.find("\n", i)
            i = n if j < 0 else j
        elif c == '"':
            j = src.find('"', i + 1)
            if j < 0:
                return False
            if "\n" in src[i:j]:
                return True
            i = j + 1
        elif c == "'":
            if src[i + 1:i + 2] == "\n" and src[i + 2:i + 3] == "'":
                return True
            i += 3 if src[i + 2:i + 3] == "'" else 1
        else:
            i += 1
    return False


class C15(Check):
    prop = "C15"
    rule = ("cases: (a) lexeme sequences from the full token alphabet joined by random trivia, separated or adjacent; "
            "(b) raw strings over a small alphabet. non-trivial = accepted input containing a token that spans a "
            "newline, or two tokens with no separating trivia, or a comment/string containing a quote or //; "
            "distinct = SHA-1 of the source")
    assumptions = ["columns count bytes (a tab is one column), lines are separated by '\\n' only",
                   "the Eof token is not position-checked"]
    floors = {"__nontrivial__": (300, 3000), "spans_newline": (50, 500), "rejected": (50, 500)}

    def lex(self, src, scratch):
        p = scratch.write("in.bloch", src.encode("latin-1"))
        r = run_proc([self.drv, "lex", p])
        return r

    def oracle(self, case):
        with Scratch("c15") as sc:
            return self._oracle(case, sc)

    def _oracle(self, case, sc, stats=None):
        src = case["src"]
        r = self.lex(src, sc)
        if r.timeout:
            if stats:
                stats.inconclusive += 1
            return None
        if r.crashed() or r.rc != 0:
            return {"why": "lexer process died", **r.brief()}
        objs = r.json_lines()
        if len(objs) != 1:
            return {"why": "driver printed no result", **r.brief()}
        obs = objs[0]
        why = check_tokens(src, obs, case.get("lexemes"))
        if stats is not None:
            tags = []
            if obs.get("ok"):
                tags.append("accepted")
                if any("\n" in t[1] for t in obs["tokens"]):
                    tags.append("spans_newline")
            else:
                tags.append("rejected")
            if case.get("lexemes") is not None:
                tags.append("separated")
            stats.record({"src": src}, nontrivial(src, obs), sample={"src": src}, tags=tags)
        return why

    def classify(self, case, why=None):
        return "multiline-token" if has_multiline_token(case["src"]) else None

    def search(self, tier, seed):
        n = 2500 if tier == "quick" else 40000
        return run_workers(_worker, seed, n=n, check=self)


def _worker(widx, wseed, n, check):
    stats = Stats()
    act = common.active_keys("C15")
    failures = []
    with Scratch("c15") as sc:
        def prop(case, stats):
            if "multiline-token" in act and has_multiline_token(case["src"]):
                stats.excluded["multiline-token"] = stats.excluded.get("multiline-token", 0) + 1
                return
            why = check._oracle(case, sc, stats)
            if why is not None:
                raise Failure(why)

        f = hyp_search(case_strategy, prop, wseed, n, stats)
        if f:
            failures.append(f)
        # coverage-guided campaign with the same oracle inside the target (harness/fuzz_lex.cpp); artifacts are re-checked
        # by the Python oracle before they count
        if widx < 4:
            failures += fuzz_lex(check, widx, wseed, 12 if n < 10000 else 600, sc, stats)
    return {"stats": stats.export(), "failures": failures}


def fuzz_lex(check, widx, wseed, seconds, sc, stats):
    import glob
    import subprocess
    from .. import build as _build
    fuzzdir = _build.build("fuzz")
    corp = os.path.join(sc.dir, "corp")
    art = os.path.join(sc.dir, "art")
    os.makedirs(corp, exist_ok=True)
    os.makedirs(art, exist_ok=True)
    dic = os.path.join(sc.dir, "dict.txt")
    with open(dic, "w") as f:
        for t in KEYWORDS + OPERATORS + ["//", "1.5f", "0b", "12L"]:
            f.write('"' + t + '"\n')
        f.write('"\\x22"\n"\\x27"\n"\\x0a"\n')
    cmd = [os.path.join(fuzzdir, "fuzz_lex"), f"-max_total_time={seconds}", "-max_len=2048", "-timeout=10",
           f"-seed={wseed % (2**31 - 1) + 1}", f"-dict={dic}", f"-artifact_prefix={art}/", "-print_final_stats=1", corp]
    env = dict(common.ENV_BASE)
    env["ASAN_OPTIONS"] = "detect_leaks=0:abort_on_error=1"
    p = subprocess.run(cmd, stdout=subprocess.PIPE, stderr=subprocess.PIPE, env=env, timeout=seconds + 120)
    for ln in p.stderr.decode("latin-1").splitlines():
        if ln.startswith("stat::number_of_executed_units:"):
            stats.count("fuzz_execs", int(ln.split()[-1]))
    fails = []
    for a in sorted(glob.glob(os.path.join(art, "crash-*"))):
        with open(a, "rb") as f:
            src = f.read().decode("latin-1")
        case = {"src": src, "lexemes": None}
        w = check.oracle(case)
        if w:
            fails.append({"case": case, "why": w})
        else:
            stats.count("fuzz_artifact_not_confirmed")
    return fails


if __name__ == "__main__":
    sys.exit(C15().main(sys.argv[1:]))
