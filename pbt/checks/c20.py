"""C20 — self-update: only strictly newer releases, right checksum line, throttled notice.

The file-local helpers of update_manager.cpp are reached through harness/verifupd.cpp (which #includes
the .cpp).  Oracles (reference semver parser, order laws, exact-name checksum lookup, 72 h throttle model)
are written from the property statement.  The download/extract/replace leg needs the network and is not
exercised; the decision logic in front of it (`!hasLatest(current, latest)` is the install gate) is.
"""
import os
import re
import subprocess
import sys
import time

from hypothesis import strategies as st

from .. import build as _build
from .. import common
from ..common import Check, Failure, Scratch, Stats, derive_seed, hyp_search, run_workers

H72 = 72 * 3600


def hx(s):
    b = s.encode("latin-1")
    return b.hex() if b else "-"


def unhx(h):
    return "" if h == "-" else bytes.fromhex(h).decode("latin-1")


class Upd:
    """One verifupd process; restarted if it dies."""

    def __init__(self, path, env=None):
        self.path = path
        self.env = dict(common.ENV_BASE)
        for k in ("BLOCH_NO_UPDATE_CHECK", "CI", "BLOCH_OFFLINE"):
            self.env.pop(k, None)
        if env:
            self.env.update(env)
        self.p = None

    def start(self):
        self.p = subprocess.Popen([self.path], stdin=subprocess.PIPE, stdout=subprocess.PIPE, stderr=subprocess.PIPE,
                                  env=self.env, text=True, encoding="latin-1")

    def cmd(self, line):
        if self.p is None or self.p.poll() is not None:
            self.start()
        try:
            self.p.stdin.write(line + "\n")
            self.p.stdin.flush()
            out = self.p.stdout.readline()
        except BrokenPipeError:
            out = ""
        if not out:
            rc = self.p.wait()
            err = self.p.stderr.read()[-1500:]
            self.p = None
            return {"died": True, "rc": rc, "stderr_tail": err}
        res, _, printed = out.rstrip("\n").partition(" | ")
        return {"res": res.split(" "), "printed": unhx(printed.strip()) if printed.strip() else ""}

    def close(self):
        if self.p is not None:
            try:
                self.p.stdin.close()
                self.p.wait(timeout=5)
            except Exception:
                self.p.kill()
            self.p = None


# ------------------------------------------------------------------ reference semver

def ref_semver(s):
    """(valid, (major, minor, patch)) - a string parses iff it has a leading numeric component (after one optional 'v');
    up to three dot-separated numeric components are read, missing ones are 0."""
    v = s[1:] if s.startswith("v") else s
    m = re.match(r"(\d+)(?:\.(\d+))?(?:\.(\d+))?", v)
    if not m:
        return False, (0, 0, 0)
    return True, tuple(int(g) if g is not None else 0 for g in m.groups())


digits = st.one_of(st.integers(0, 30).map(str), st.sampled_from(["0", "1", "2", "9", "10", "11", "007", "00", "2147483647",
                                                                 "2147483648", "99999999999", "18446744073709551616",
                                                                 "4294967297"]))
suffix = st.sampled_from(["", "", "", "-beta", "-rc.1", "+build5", " ", "x", ".", "..", "-modified", "-5-gabc123", ".4",
                                ".4.5"])


@st.composite
def version_string(draw):
    kind = draw(st.integers(0, 9))
    if kind == 0:
        return draw(st.sampled_from(["", "v", "unknown", "dev", "garbage", "latest", "vv1.2.3", ".1.2", "-1.2.3", " 1.2.3",
                                     "V1.2.3", "abc123f", "1", "v1", "1.", "v.", "1..2", "1.2..3", "v1.2.x", "x.y.z"]))
    n = draw(st.integers(1, 4))
    parts = [draw(digits) for _ in range(n)]
    return ("v" if draw(st.booleans()) else "") + ".".join(parts) + draw(suffix)


def near(v, draw):
    """A version differing from v in exactly one component."""
    ok, (a, b, c) = ref_semver(v)
    i = draw(st.integers(0, 2))
    d = draw(st.sampled_from([-1, 1, 1, 9]))
    t = [a, b, c]
    t[i] = max(0, t[i] + d)
    return ("v" if draw(st.booleans()) else "") + ".".join(str(x) for x in t)


@st.composite
def pair_case(draw):
    a = draw(version_string())
    if draw(st.booleans()) and ref_semver(a)[0] and max(ref_semver(a)[1]) < 10**6:
        b = near(a, draw)
    else:
        b = draw(version_string())
    if draw(st.booleans()):
        a, b = b, a
    c = draw(version_string())
    return {"kind": "pair", "a": a, "b": b, "c": c}


HASH = st.from_regex(r"[0-9a-f]{64}", fullmatch=True)
ASSET = st.sampled_from(["bloch-v1.2.0-linux-x86_64.tar.gz", "bloch-v1.2.0-macos-arm64.tar.gz", "bloch-v1.10.0-linux-x86_64.tar.gz",
                         "bloch-v1.2.0-linux-aarch64.tar.gz"])


@st.composite
def checksum_case(draw):
    asset = draw(ASSET)
    decoys = [asset + ".sig", asset + ".sha256", "old-" + asset, asset.replace(".tar.gz", ".zip"), "x" + asset,
              asset.replace("linux", "linux-musl"), "./" + asset + ".asc", asset + "2", "prefix/" + asset + ".bak"]
    lines = []
    n = draw(st.integers(0, 6))
    for _ in range(n):
        nm = draw(st.sampled_from(decoys + [draw(ASSET)]))
        if nm == asset:
            continue
        sep = draw(st.sampled_from(["  ", " *", " ", "\t"]))
        lines.append((draw(HASH), sep, nm))
    want = None
    if draw(st.integers(0, 4)) != 0:
        want = draw(HASH)
        sep = draw(st.sampled_from(["  ", " *", "  "]))
        pos = draw(st.integers(0, len(lines)))
        lines.insert(pos, (want, sep, asset))
    noise = draw(st.sampled_from(["", "", "# checksums\n", "\n"]))
    content = noise + "".join(f"{h}{s}{nm}\n" for h, s, nm in lines)
    if draw(st.integers(0, 5)) == 0:
        content = content.rstrip("\n")
    return {"kind": "checksum", "content": content, "asset": asset}


def ref_checksum(content, asset):
    for ln in content.split("\n"):
        f = ln.split()
        if len(f) >= 2:
            name = f[1]
            if name.startswith("*"):
                name = name[1:]
            if name == asset:
                return f[0]
    return None


@st.composite
def notice_seq(draw):
    """A sequence of invocations over virtual time against one cache state (pure maybePrintNotice path)."""
    steps = []
    n = draw(st.integers(2, 10))
    for _ in range(n):
        dt = draw(st.sampled_from([0, 1, 3600, H72 - 3600, H72 - 1, H72, H72 + 1, H72 + 3600, 2 * H72, 24 * 3600, 10 * H72]))
        lat = draw(st.sampled_from(["v1.2.0", "v1.3.0", "v2.0.0", "1.2.1", "garbage", "", "v1.2", "v0.9.9"]))
        cur = draw(st.sampled_from(["1.2.0", "v1.2.0", "1.1.9", "dev", "unknown", "1.3.0", "v2.0.0", "1.2.0-modified"]))
        steps.append([dt, lat, cur])
    return {"kind": "notice", "steps": steps}


@st.composite
def invoke_seq(draw):
    """Invocations of the public checkForUpdatesIfDue against a real cache file; time is advanced by shifting the
    stored timestamps (only differences are used); lastChecked is fresh in most steps (no release lookup) and older than 72 h in the others (a lookup is attempted and fails in
    this network-less sandbox: the notice decision and its persistence must not depend on that)."""
    steps = []
    n = draw(st.integers(2, 6))
    for _ in range(n):
        dt = draw(st.sampled_from([0, 3600, H72 - 120, H72 + 120, 2 * H72, 24 * 3600]))
        lat = draw(st.sampled_from(["v1.2.0", "v1.3.0", "v2.0.0", "garbage", "v1.2.1"]))
        cur = draw(st.sampled_from(["1.2.0", "v1.2.0", "1.1.9", "unknown", "v2.0.0"]))
        env = draw(st.sampled_from([None, None, None, "BLOCH_NO_UPDATE_CHECK", "CI", "BLOCH_OFFLINE"]))
        # stale: the last release lookup is more than 72 h old, so a lookup is attempted (and fails: no network here)
        steps.append([dt, lat, cur, env, draw(st.integers(0, 2)) == 0])
    return {"kind": "invoke", "steps": steps}


case_strategy = st.one_of(pair_case(), pair_case(), checksum_case(), notice_seq())


class C20(Check):
    prop = "C20"
    rule = ("version strings from a grammar (optional v, 1-4 numeric components incl. leading zeros and huge digit runs, "
            "suffixes) plus garbage/near-misses, in triples for the order laws; checksums.txt contents with reordered lines, "
            "binary markers and similarly named assets; notice sequences over virtual time (pure helper) and over a real cache "
            "file with environment switches (public entry point). non-trivial = the pair differs in exactly one component, or "
            "one string is unparsable/huge; the checksum file has a superstring-named asset before the exact one; the sequence "
            "crosses the 72 h boundary; distinct = SHA-1 of the case")
    assumptions = ["reference semver grammar: optional 'v', up to three dot-separated numeric components, missing = 0",
                   "network leg (download, extract, replace) is not exercised",
                   "invoke sequences keep 120 s away from the 72 h boundary because the real clock is involved"]
    floors = {"__nontrivial__": (1500, 30000), "checksum_decoy_before": (150, 3000), "crosses_72h": (150, 3000),
              "invoke_sequences": (30, 300)}

    active = frozenset()

    def prepare(self):
        self.updbin = _build.binary("verifupd", "upd")
        self.active = frozenset(common.active_keys("C20"))

    # ---- oracles
    def pair_oracle(self, case, upd, stats=None):
        a, b, c = case["a"], case["b"], case["c"]
        parsed = {}
        for s in (a, b, c):
            r = upd.cmd("semver " + hx(s))
            if "died" in r:
                return {"why": f"parseSemVer({s!r}) killed the process", **r}
            if r["res"][0] == "EXC":
                return {"why": f"parseSemVer({s!r}) threw {r['res'][1]} ({unhx(r['res'][2])})"}
            valid, maj, mnr, pat = int(r["res"][1]), int(r["res"][2]), int(r["res"][3]), int(r["res"][4])
            rv, rt = ref_semver(s)
            if valid and not rv:
                return {"why": f"parseSemVer({s!r}) claims valid {maj}.{mnr}.{pat} but the string has no leading numeric component"}
            if valid and (maj, mnr, pat) != rt:
                return {"why": f"parseSemVer({s!r}) = {maj}.{mnr}.{pat}, true triple {rt}"}
            if rv and not valid and max(rt) <= 2147483647:
                return {"why": f"parseSemVer({s!r}) rejected a representable version {rt}"}
            parsed[s] = (bool(valid), (maj, mnr, pat))

        def pair(x, y):
            r = upd.cmd(f"pair {hx(x)} {hx(y)}")
            if "died" in r or r["res"][0] == "EXC":
                return None, r
            return (int(r["res"][1]), int(r["res"][2]), r["res"][3]), r

        obs = {}
        for x, y in ((a, b), (b, a), (b, c), (a, c)):
            o, raw = pair(x, y)
            if o is None:
                return {"why": f"compare/hasLatest({x!r}, {y!r}) crashed", "obs": raw}
            obs[(x, y)] = o
        # order laws on compareSemVer (current, latest): -1 when current < latest
        for x, y in ((a, b), (b, c), (a, c)):
            vx, tx = parsed[x]
            vy, ty = parsed[y]
            cmpv = obs[(x, y)][0]
            if vx and vy:
                want = -1 if tx < ty else (1 if tx > ty else 0)
                if cmpv != want:
                    return {"why": f"compareSemVer({x!r}, {y!r}) = {cmpv}, tuple order says {want}"}
        if obs[(a, b)][0] != -obs[(b, a)][0]:
            return {"why": f"compareSemVer not antisymmetric on {a!r}, {b!r}"}
        if obs[(a, b)][0] <= 0 and obs[(b, c)][0] <= 0 and parsed[a][0] and parsed[b][0] and parsed[c][0] and obs[(a, c)][0] > 0:
            return {"why": f"compareSemVer not transitive on {a!r}, {b!r}, {c!r}"}
        # gates (current = x, latest = y)
        for x, y in ((a, b), (b, a)):
            vx, tx = parsed[x]
            vy, ty = parsed[y]
            rx, ry = ref_semver(x)[0], ref_semver(y)[0]
            has_latest = obs[(x, y)][1]
            acts_install = not has_latest
            r = upd.cmd(f"notice {10**9} 0 {hx(y)} {hx(x)}")
            if "died" in r or r["res"][0] == "EXC":
                return {"why": f"maybePrintNotice crashed on latest={y!r} current={x!r}", "obs": r}
            acts_notice = r["res"][1] == "1"
            # "a version string it cannot parse" is the implementation's own verdict (already checked above to be
            # consistent with the reference: invalid only for strings without a numeric head or with huge components)
            both = vx and vy
            newer = both and ref_semver(y)[1] > ref_semver(x)[1]
            key = None
            for what, acts in (("install", acts_install), ("notice", acts_notice)):
                if acts and not both:
                    if what == "install" and "update-gate-unparsable" in self.active:
                        # listed known finding: excluded here (and counted) so that the search continues behind it
                        if stats is not None:
                            stats.excluded["update-gate-unparsable"] = stats.excluded.get("update-gate-unparsable", 0) + 1
                        continue
                    return {"why": f"{what} gate acts on an unparsable version (current={x!r}, latest={y!r})", "gate": what,
                            "unparsable": True}
                if acts and not newer:
                    return {"why": f"{what} gate acts although latest {y!r} is not strictly newer than current {x!r}", "gate": what}
                if both and not newer and max(ref_semver(x)[1] + ref_semver(y)[1]) <= 2147483647:
                    if what == "install" and not has_latest:
                        return {"why": f"'already latest' not reported for current={x!r}, latest={y!r}"}
                if both and newer and not acts and max(ref_semver(x)[1] + ref_semver(y)[1]) <= 2147483647:
                    return {"why": f"{what} gate ignores a strictly newer release (current={x!r}, latest={y!r})", "gate": what}
            if acts_notice and y not in r["printed"]:
                return {"why": "notice text does not name the latest version"}
        if stats is not None:
            ra, rb = ref_semver(a), ref_semver(b)
            one = ra[0] and rb[0] and sum(1 for i in range(3) if ra[1][i] != rb[1][i]) == 1
            odd = (not ra[0]) or (not rb[0]) or max(ra[1] + rb[1]) > 2147483647
            tags = ["pair"] + (["one_component"] if one else []) + (["unparsable_or_huge"] if odd else [])
            stats.record(case, one or odd, sample=case, tags=tags)
        return None

    def checksum_oracle(self, case, upd, stats=None):
        r = upd.cmd(f"checksum {hx(case['content'])} {hx(case['asset'])}")
        if "died" in r or r["res"][0] == "EXC":
            return {"why": "parseChecksum crashed", "obs": r}
        got = unhx(r["res"][2]) if r["res"][1] == "1" else None
        want = ref_checksum(case["content"], case["asset"])
        if stats is not None:
            lines = case["content"].split("\n")
            idx = [i for i, ln in enumerate(lines) if len(ln.split()) >= 2 and ln.split()[1].lstrip("*") == case["asset"]]
            decoy_before = any(case["asset"] in ln for ln in (lines[:idx[0]] if idx else lines))
            stats.record(case, decoy_before, sample=case, tags=["checksum"] + (["checksum_decoy_before"] if decoy_before else []))
        if got != want:
            return {"why": f"parseChecksum returned {got!r}, the line for exactly {case['asset']!r} lists {want!r}"}
        return None

    def notice_oracle(self, case, upd, stats=None):
        T = 10 * H72
        last = 0
        crossed = False
        prints = []
        for dt, lat, cur in case["steps"]:
            T += dt
            r = upd.cmd(f"notice {T} {last} {hx(lat)} {hx(cur)}")
            if "died" in r or r["res"][0] == "EXC":
                return {"why": "maybePrintNotice crashed", "obs": r}
            printed = r["res"][1] == "1"
            new_last = int(r["res"][2])
            rl, rc_ = ref_semver(lat), ref_semver(cur)
            newer = rl[0] and rc_[0] and rl[1] > rc_[1]
            due = T - last >= H72
            want = bool(lat) and newer and due
            if newer and not due:
                crossed = True
            if printed != want:
                return {"why": f"notice at T={T}: printed={printed}, model says {want} (latest={lat!r}, current={cur!r}, "
                               f"since last notice {T - last}s)"}
            if printed:
                if new_last != T:
                    return {"why": "lastNotified not advanced to now after printing"}
                if prints and T - prints[-1] < H72:
                    return {"why": "two notices less than 72 h apart"}
                prints.append(T)
            elif new_last != last:
                return {"why": "lastNotified changed without a notice"}
            last = new_last
        if stats is not None:
            stats.record(case, crossed and len(prints) >= 1, sample=case, tags=["notice"] + (["crosses_72h"] if crossed else []))
        return None

    def invoke_oracle(self, case, sc, stats=None):
        cache_dir = os.path.join(sc.dir, "xdg")
        upd = Upd(self.updbin, env={"XDG_CACHE_HOME": cache_dir, "HOME": sc.dir})
        try:
            cache_file = os.path.join(cache_dir, "bloch", "update_cache.txt")
            os.makedirs(os.path.dirname(cache_file), exist_ok=True)
            T = 0
            last_virtual = -10 * H72
            crossed = False
            for step in case["steps"]:
                dt, lat, cur, env = step[:4]
                stale = bool(step[4]) if len(step) > 4 else False
                T += dt
                R = int(upd.cmd("nowsec")["res"][1])
                with open(cache_file, "w") as f:
                    f.write(f"{R - (H72 + 8 * 3600 if stale else 5)}\n{lat}\n{R - (T - last_virtual)}\n")
                before = open(cache_file, "rb").read()
                for k in ("BLOCH_NO_UPDATE_CHECK", "CI", "BLOCH_OFFLINE"):
                    upd.cmd("unsetenv " + k)
                if env:
                    upd.cmd(f"setenv {env} 1")
                r = upd.cmd("invoke " + hx(cur))
                if "died" in r or r["res"][0] == "EXC":
                    return {"why": "checkForUpdatesIfDue crashed", "obs": r}
                printed = "new" in r["printed"] and "version of Bloch" in r["printed"]
                after = open(cache_file, "rb").read()
                if stale and env is None and after.decode().split("\n")[:2] != before.decode().split("\n")[:2]:
                    # the lookup unexpectedly succeeded (a network exists): the cached tag is no longer the one the model knows
                    if stats is not None:
                        stats.count("lookup_succeeded_inconclusive")
                    return None
                rl, rc_ = ref_semver(lat), ref_semver(cur)
                newer = rl[0] and rc_[0] and rl[1] > rc_[1]
                due = T - last_virtual >= H72
                want = (env is None) and newer and due
                if newer and not due and env is None:
                    crossed = True
                if env is not None:
                    if r["printed"]:
                        return {"why": f"output although update checks are disabled by {env}: {r['printed']!r}"}
                    if after != before:
                        return {"why": f"cache file modified although update checks are disabled by {env}"}
                if printed != want:
                    return {"why": f"invocation at virtual T={T}: notice printed={printed}, model says {want} "
                                   f"(latest={lat!r}, current={cur!r}, since last notice {T - last_virtual}s, env={env})"}
                if printed:
                    ln = after.decode().split("\n")
                    if abs(int(ln[2]) - R) > 30:
                        return {"why": "cache lastNotified not set to now after a notice"}
                    last_virtual = T
                elif after != before:
                    return {"why": "cache file changed although nothing was announced"}
            if stats is not None:
                stats.record(case, crossed, sample=case, tags=["invoke_sequences"] + (["crosses_72h"] if crossed else []) +
                             (["stale_lookup_step"] if any(len(x) > 4 and x[4] for x in case["steps"]) else []))
            # cache round trip
            r = upd.cmd(f"savecache 1700000000 1700000500 {hx('v9.8.7')}")
            r = upd.cmd("loadcache")
            if r["res"][:4] != ["OK", "1", "1700000000", "1700000500"] or unhx(r["res"][4]) != "v9.8.7":
                return {"why": f"cache does not round-trip through save/load: {r['res']}"}
            return None
        finally:
            upd.close()

    def run_case(self, case, upd, sc, stats=None):
        k = case["kind"]
        if k == "pair":
            return self.pair_oracle(case, upd, stats)
        if k == "checksum":
            return self.checksum_oracle(case, upd, stats)
        if k == "notice":
            return self.notice_oracle(case, upd, stats)
        if k == "invoke":
            return self.invoke_oracle(case, sc, stats)
        raise ValueError(k)

    def oracle(self, case):
        # strict: no known-finding exclusion (used for replays and for confirming shrunk failures)
        saved, self.active = self.active, frozenset()
        try:
            with Scratch("c20") as sc:
                upd = Upd(self.updbin)
                try:
                    return self.run_case(case, upd, sc)
                finally:
                    upd.close()
        finally:
            self.active = saved

    def classify(self, case, why=None):
        if isinstance(why, dict) and why.get("gate") == "install" and why.get("unparsable"):
            return "update-gate-unparsable"
        return None

    def search(self, tier, seed):
        return run_workers(_worker, seed, tier=tier, check=self)


def _worker(widx, wseed, tier, check):
    stats = Stats()
    failures = []
    quick = tier == "quick"
    with Scratch("c20") as sc:
        upd = Upd(check.updbin)
        try:
            def prop(case, stats):
                why = check.run_case(case, upd, sc, stats)
                if why is not None:
                    raise Failure(why)
            f = hyp_search(case_strategy, prop, wseed, 2500 if quick else 60000, stats)
            if f:
                failures.append(f)
            f = hyp_search(invoke_seq(), prop, derive_seed(wseed, "invoke"), 12 if quick else 150, stats)
            if f:
                failures.append(f)
        finally:
            upd.close()
    return {"stats": stats.export(), "failures": failures}


if __name__ == "__main__":
    sys.exit(C20().main(sys.argv[1:]))
