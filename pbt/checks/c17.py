"""C17 — @tracked/@shots reporting counts every scope exit of every shot exactly once.

Generator: `quantum` profile programs with tracked locals in main, nested blocks, loop-scoped tracked variables (one scope
exit per iteration), helpers with tracked locals called several times, registers with partly measured elements,
re-measurement after reset, tracked object fields recorded on destruction; shot count given by --shots, by @shots, by both
(equal / different); --echo absent / all / none / auto.
Oracle:
  per shot (API, `trackedCounts()` of each evaluator): equals the table the abstract interpreter derives from that shot's
    logged measurement history: one outcome per scope exit, key = last measurement of each element in index order, '?'
    if any element is unmeasured at that moment;
  aggregate (real CLI, same per-shot seeds, table parsed from stdout): counts = sum of the per-shot tables; printed
    probability = count / that variable's total (3 decimals), every probability in [0,1], each variable's probabilities sum
    to 1 +- rounding; header `Shots: N` with N from the annotation when present; echo lines appear once per shot exactly when
    --echo=all or a single shot is run (--echo=auto == absent; --echo=none with a single shot is not asserted).
"""
import re
import sys

from hypothesis import strategies as st

from .. import common, progrun, qprog
from ..common import Check, Failure, Scratch, Stats, hyp_search, run_workers


@st.composite
def tracked_case(draw):
    p = draw(qprog.qprogram(max_q=6, nstmts=10, tracked=True))
    extra = []
    uid = 700
    for _ in range(draw(st.integers(0, 3))):
        uid += 1
        k = draw(st.sampled_from(["tloop", "tloop", "thelper", "thelper", "remeasure", "partreg"]))
        if k == "tloop":
            extra.append(["tloop", draw(st.integers(1, 3)), f"t{uid}", draw(st.sampled_from([None, "x", "h"])), draw(st.booleans()),
                          f"i{uid}"])
        elif k == "thelper":
            v = draw(st.sampled_from(["meas", "rand", "unmeas", "reg", "part"]))
            for _ in range(draw(st.integers(1, 3))):
                extra.append(["thelper", v])
        elif k == "remeasure":
            q = f"q{uid}"
            extra += [["qdecl", q, True], ["gate", "x", "direct", [["var", q]], None], ["mstmt", ["var", q]],
                      ["reset", ["var", q]]] + ([["mstmt", ["var", q]]] if draw(st.booleans()) else [])
        else:
            r = f"r{uid}"
            extra += [["rdecl", r, 2, True], ["gate", "h", "direct", [["elem", r, 0]], None], ["mstmt", ["elem", r, draw(st.integers(0, 1))]]]
    pos = draw(st.integers(0, len(p["main"])))
    if draw(st.booleans()):
        extra = [["block", extra]] if extra else []
    p["main"] = p["main"][:pos] + extra + p["main"][pos:]
    flag = draw(st.sampled_from([None, None, 1, 2, 3, 5]))
    annot = draw(st.sampled_from([None, None, 1, 2, 4]))
    if flag is None and annot is None and draw(st.booleans()):
        flag = draw(st.integers(2, 6))
    p["shots_annot"] = annot
    return {"p": p, "flag": flag, "echo": draw(st.sampled_from([None, None, "all", "none", "auto"])), "seed": p["seed"]}


def parse_table(stdout):
    """-> (echo_lines, shots_header or None, {var: {outcome: (count, prob_text)}}, qasm_tail)"""
    lines = stdout.split("\n")
    hi = next((i for i, ln in enumerate(lines) if ln.startswith("Shots: ")), None)
    if hi is None:
        return [ln for ln in lines if ln != ""], None, {}, None
    echo = lines[:hi]
    shots = int(lines[hi].split()[1])
    table = {}
    i = hi + 1
    cur = None
    while i < len(lines):
        ln = lines[i]
        if ln.startswith("OPENQASM"):
            break
        m = re.fullmatch(r"(\S+)\s*\|\s*(\d+)\s*\|\s*(-?\d+\.\d{3})", ln.strip())
        if re.fullmatch(r"(qubit|qubit\[\]) \S+|\S+\.\S+", ln.strip()) and not m:
            cur = ln.strip()
            table[cur] = {}
        elif m and cur is not None and m.group(1) != "outcome":
            table[cur][m.group(1)] = (int(m.group(2)), m.group(3))
        i += 1
    return echo, shots, table, None


class C17(Check):
    prop = "C17"
    rule = ("generated quantum programs with tracked locals / blocks / loop-scoped variables / helper-local variables / partly "
            "measured registers / reset histories / tracked object fields, run with shot counts from flag and/or annotation and "
            "every --echo mode; per-shot tables vs the abstract interpreter, CLI aggregate vs the sum of per-shot tables. "
            "non-trivial = (exits per shot >= 2 for some variable, or a register with a '?' outcome, or a tracked field) and N >= 2; "
            "distinct = SHA-1 of (program, configuration)")
    assumptions = ["CLI shots are seeded through BLOCH_VERIF_SHOT_SEED with the same per-shot seeds as the API run",
                   "--echo=none with a single shot is not asserted (property statement and cli.md read differently)"]
    floors = {"__nontrivial__": (400, 8000), "multi_exit": (300, 5000), "both_flag_and_annotation": (100, 2000),
              "tracked_field": (100, 2000)}

    def run_case(self, case, sc, stats=None):
        p = case["p"]
        src = qprog.render(p)
        annot, flag = p.get("shots_annot"), case["flag"]
        N = annot if annot else (flag if flag else 1)
        provided = bool(annot or flag)
        r = progrun.run_api(self.drv, sc, src, ["--seed", str(case["seed"]), "--shots", str(N), "--dump", "echo,tracked,outcomes"])
        if r.timeout:
            if stats is not None:
                stats.inconclusive += 1
            return None
        if r.crashed() or r.rc != 0:
            return {"why": "interpreter died", "source": src, **r.brief()}
        objs = r.json_lines()
        if objs and objs[0].get("phase") == "front":
            return {"why": f"generated program rejected: {objs[0].get('msg')}", "source": src}
        shots = [o for o in objs if o.get("phase") == "shot"]
        if len(shots) != N or not all(s.get("ok") for s in shots):
            return {"why": f"not all shots succeeded: {[s.get('msg') for s in shots if not s.get('ok')][:1]}", "source": src}
        agg = {}
        echoes = []
        exits = {}
        feats = set()
        for s in shots:
            try:
                it = qprog.Interp(p, s["outcomes"]).run()
            except qprog.ModelError as e:
                return {"why": f"outcome log inconsistent with the program: {e}", "source": src}
            if s["tracked"] != it.tracked:
                return {"why": f"shot {s['shot']}: tracked table {s['tracked']} differs from the measurement history {it.tracked}",
                        "source": src}
            for var, d in s["tracked"].items():
                for k, v in d.items():
                    agg.setdefault(var, {})
                    agg[var][k] = agg[var].get(k, 0) + v
                n = sum(d.values())
                exits[var] = max(exits.get(var, 0), n)
                if n >= 2:
                    feats.add("multi_exit")
                if "?" in d and var.startswith("qubit[]"):
                    feats.add("register_unmeasured")
                if var.startswith("Holder."):
                    feats.add("tracked_field")
            echoes.append(s["echo"])
        if annot and flag:
            feats.add("both_flag_and_annotation")
        # ---- the real CLI with the same per-shot seeds
        args = []
        if flag:
            args.append(f"--shots={flag}")
        if case["echo"]:
            args.append(f"--echo={case['echo']}")
        c = progrun.run_cli(self.drv, sc, src, args, env={"BLOCH_VERIF_SHOT_SEED": str(case["seed"])})
        if c.proc.timeout:
            return None
        if c.proc.crashed() or c.rc != 0:
            return {"why": f"CLI failed: {c.stderr_lines[-2:]}", "source": src, **c.proc.brief()}
        echo, hdr, table, _ = parse_table(c.proc.out)
        if stats is not None:
            nt = N >= 2 and bool(feats & {"multi_exit", "register_unmeasured", "tracked_field"})
            stats.record({"p": p, "flag": flag, "echo": case["echo"]}, nt, tags=sorted(feats) + [f"echo_{case['echo']}"],
                         sample={"main": src[src.index("function main") - 12:], "args": args, "stdout": c.proc.out[:600]} if len(src) < 5200 else None)
        if provided:
            if hdr != N:
                return {"why": f"header says Shots: {hdr}, expected {N} (flag={flag}, annotation={annot})", "source": src}
            if set(table) != set(agg):
                return {"why": f"table lists variables {sorted(table)}, tracked variables are {sorted(agg)}", "stdout": c.proc.out[:800]}
            for var, d in agg.items():
                got = {k: v[0] for k, v in table[var].items()}
                if got != d:
                    return {"why": f"aggregate counts of '{var}' are {got}, the per-shot tables add up to {d}", "source": src}
                total = sum(d.values())
                if total != N * exits[var] and all(sum(s["tracked"].get(var, {}).values()) == exits[var] for s in shots):
                    return {"why": f"'{var}' has {total} outcomes, expected {N} x {exits[var]}"}
                psum = 0.0
                for k, (cnt, ptxt) in table[var].items():
                    pv = float(ptxt)
                    psum += pv
                    if not (0.0 <= pv <= 1.0):
                        return {"why": f"probability {ptxt} of '{var}' outcome {k} is outside [0, 1]", "stdout": c.proc.out[:800],
                                "source": src}
                    if abs(pv - cnt / total) > 0.00051:
                        return {"why": f"probability {ptxt} of '{var}' outcome {k} is not count/total = {cnt}/{total}", "source": src}
                if abs(psum - 1.0) > 0.0006 * max(1, len(table[var])):
                    return {"why": f"probabilities of '{var}' sum to {psum:.3f}", "source": src}
        elif hdr is not None:
            return {"why": "aggregate table printed although no shot count was given"}
        # ---- echo
        mode = case["echo"] if case["echo"] not in (None, "auto") else None
        all_echo = [x for e in echoes for x in e]
        if mode == "all":
            want = all_echo
        elif mode == "none":
            want = None if N == 1 else []
        else:
            want = all_echo if N == 1 else []
        if want is not None and echo != want:
            return {"why": f"echo lines with --echo={case['echo']} and {N} shot(s): got {len(echo)} lines, expected {len(want)}",
                    "got": echo[:6], "expected": want[:6], "source": src}
        return None

    def oracle(self, case):
        with Scratch("c17") as sc:
            return self.run_case(case, sc)

    def classify(self, case, why=None):
        return None

    def search(self, tier, seed):
        return run_workers(_worker, seed, tier=tier, check=self)


def _worker(widx, wseed, tier, check):
    stats = Stats()
    failures = []
    with Scratch("c17") as sc:
        def prop(case, stats):
            why = check.run_case(case, sc, stats)
            if why is not None:
                raise Failure(why)
        f = hyp_search(tracked_case(), prop, wseed, 200 if tier == "quick" else 4000, stats)
        if f:
            failures.append(f)
    return {"stats": stats.export(), "failures": failures}


if __name__ == "__main__":
    sys.exit(C17().main(sys.argv[1:]))
