"""C07 — classical evaluation agrees with the documented language semantics.

Generator: `classic` profile (pbt/genprog.py), typed by construction.  Oracle: pbt/ref_classic.py, an
independent interpreter written from the docs.  Compared: exit status; on success the echoed lines
(numeric tokens compared as numbers, rel 1e-5); on failure the runtime error KIND (division by zero /
modulo by zero / index out of bounds) - not the echo lines, because whether buffered output survives
an error is undocumented.  Cases whose result the docs do not fix are discarded and counted.
"""
import sys

from .. import common, genprog, progrun, ref_classic
from ..common import Check, Failure, Scratch, Stats, hyp_search, run_workers


def any_expr(p, pred):
    hit = []

    def fe(e):
        if pred(e):
            hit.append(1)

    for f in p["funcs"]:
        genprog.walk_stmts(f["body"], lambda s: None, fe)
    return bool(hit)


def any_widening(p):
    """int-typed expression stored into a long slot (declaration, assignment, argument, return)."""
    hit = []
    fsig = {f["name"]: f for f in p["funcs"]}

    def scan_fn(f):
        types = {pn: pt for pt, pn in f["params"]}

        def fs(s):
            if s["k"] == "decl":
                types[s["name"]] = s["t"]
                if s["t"] == "long" and s.get("init") is not None and s["init"]["t"] == "int":
                    hit.append(1)
            if s["k"] == "assign" and types.get(s["name"]) == "long" and s["e"]["t"] == "int":
                hit.append(1)
            if s["k"] == "ret" and s.get("e") is not None and f["ret"] == "long" and s["e"]["t"] == "int":
                hit.append(1)

        def fe(e):
            if e["k"] == "call":
                g = fsig.get(e["f"])
                if g:
                    for (pt, _), a in zip(g["params"], e["args"]):
                        if pt == "long" and a["t"] == "int":
                            hit.append(1)
            if e["k"] == "assign" and e["t"] == "long" and e["e"]["t"] == "int":
                hit.append(1)

        genprog.walk_stmts(f["body"], fs, fe)

    for f in p["funcs"]:
        scan_fn(f)
    return bool(hit)


SIGNATURES = {
    "concat-boolean": lambda p: any_expr(p, lambda e: e["k"] == "bin" and e["op"] == "+" and e["t"] == "string" and
                                         "boolean" in (e["l"]["t"], e["r"]["t"])),
    "int-valued-long": any_widening,
}


# ------------------------------------------------------------------ int -> long widening sites (own closed-form model)
# docs: an int is accepted wherever a long is declared (variable, assignment, parameter, return value, field) and is a long
# from then on: arithmetic with another int no longer wraps at 32 bits and overload selection sees a long.

from hypothesis import strategies as st

W_BIG = [2000000000, 1073741824, 2147483647, 46341, 65536, -2000000000, 1000000007, 3, 0]
W_SITES = ["decl", "assign", "fparam", "fret", "fret_expr", "mparam", "mret", "ctor", "field_init", "field_assign", "static_assign",
           "static_init", "pick_var", "pick_fret", "pick_mret", "chain"]
W_PRELUDE = """class W {{
    public long fld = {e};
    public static long sfld = {e};
    public long g;
    public constructor(long p) -> W {{ this.g = p; return this; }}
    public function viaParam(long p, int x) -> long {{ return p {op} x; }}
    public function viaRet(int a) -> long {{ return a; }}
    public function pick(int a) -> string {{ return "int"; }}
    public function pick(long a) -> string {{ return "long"; }}
}}
function fParam(long p, int x) -> long {{ return p {op} x; }}
function fRet(int a) -> long {{ return a; }}
function fRetExpr(int a, int b) -> long {{ return a - b; }}
"""


def _wrap(v, bits):
    m = 1 << bits
    v &= m - 1
    return v - m if v >= m >> 1 else v


@st.composite
def widen_case(draw):
    return {"kind": "widen", "e": draw(st.sampled_from(W_BIG)), "x": draw(st.sampled_from(W_BIG)), "op": draw(st.sampled_from(["+", "-", "*"])),
            "sites": draw(st.lists(st.sampled_from(W_SITES), min_size=1, max_size=6))}


def widen_program(case):
    e, x, op = case["e"], case["x"], case["op"]
    lit = lambda v: str(v) if v >= 0 else f"(0 - {-v})"
    body = [f"int e = {lit(e)};", f"int x = {lit(x)};", "W w = new W(1);"]
    exp = []
    f = {"+": lambda a, b: a + b, "-": lambda a, b: a - b, "*": lambda a, b: a * b}[op]
    L = str(_wrap(f(e, x), 64))
    for n, site in enumerate(case["sites"]):
        v = f"v{n}"
        if site == "decl":
            body += [f"long {v} = e;", f"echo({v} {op} x);"]; exp.append(L)
        elif site == "assign":
            body += [f"long {v} = 0L;", f"{v} = e;", f"echo({v} {op} x);"]; exp.append(L)
        elif site == "fparam":
            body += [f"echo(fParam(e, x));"]; exp.append(L)
        elif site == "fret":
            body += [f"echo(fRet(e) {op} x);"]; exp.append(L)
        elif site == "fret_expr":
            body += [f"echo(fRetExpr(e, 0) {op} x);"]; exp.append(L)
        elif site == "mparam":
            body += [f"echo(w.viaParam(e, x));"]; exp.append(L)
        elif site == "mret":
            body += [f"echo(w.viaRet(e) {op} x);"]; exp.append(L)
        elif site == "ctor":
            body += [f"W {v} = new W(e);", f"echo({v}.g {op} x);"]; exp.append(L)
        elif site == "field_init":
            body += [f"echo(w.fld {op} x);"]; exp.append(L)
        elif site == "field_assign":
            body += [f"w.g = e;", f"echo(w.g {op} x);"]; exp.append(L)
        elif site == "static_assign":
            body += [f"W.sfld = e;", f"echo(W.sfld {op} x);"]; exp.append(L)
        elif site == "static_init":
            body += [f"echo(W.sfld {op} x);"]; exp.append(L)
        elif site == "pick_var":
            body += [f"long {v} = e;", f"echo(w.pick({v}));"]; exp.append("long")
        elif site == "pick_fret":
            body += [f"echo(w.pick(fRet(e)));"]; exp.append("long")
        elif site == "pick_mret":
            body += [f"echo(w.pick(w.viaRet(e)));"]; exp.append("long")
        elif site == "chain":
            body += [f"long {v} = fRet(e) {op} x;", f"echo({v});", f"echo(w.pick(e));"]; exp += [L, "int"]
    src = W_PRELUDE.format(e=lit(e), op=op) + "function main() -> void {\n    " + "\n    ".join(body) + "\n}\n"
    return src, exp


# ------------------------------------------------------------------ leaving a loop by `return` (own closed-form model)
# docs (statements): `return` ends the function at once; the for-loop's step runs after a COMPLETED iteration only.

L_STEPS = {"plus": "i = i + 1", "post": "i++", "call": "i = nxt(i)", "tick": "i = i + tick()", "guard": "i = i + 1 + 0 % (r - i)"}


@st.composite
def loop_case(draw):
    return {"kind": "loop", "r": draw(st.integers(0, 4)), "n": draw(st.integers(0, 5)), "step": draw(st.sampled_from(sorted(L_STEPS))),
            "body_echo": draw(st.booleans()), "nested": draw(st.booleans()), "method": draw(st.booleans()),
            "use": draw(st.sampled_from(["echo", "arith", "decl"]))}


def loop_program(case):
    r, n, step = case["r"], case["n"], case["step"]
    if step == "guard" and r >= n:
        step = "plus"  # r - i would reach 0 in the step after iteration i = r ... which never completes only if r < n
    body = ('echo("b" + i); ' if case["body_echo"] else "") + "if (i == r) { return 100 + i; }"
    loop = f"for (int i = 0; i < n; {L_STEPS[step]}) {{ {body} }}"
    if case["nested"]:
        loop = f"for (int j = 0; j < 2; j = j + 1) {{ echo(\"o\" + j); {loop} }}"
    fn = f"function f(int r, int n) -> int {{ {loop} return 0 - 1; }}"
    helpers = "function nxt(int v) -> int { return v + 1; }\nfunction tick() -> int { echo(\"t\"); return 1; }\n"
    if case["method"]:
        decl = "class H { public constructor() -> H { return this; } public " + fn + " }\n"
        call = "h.f(%d, %d)" % (r, n)
        pre = "H h = new H(); "
    else:
        decl = fn + "\n"
        call = "f(%d, %d)" % (r, n)
        pre = ""
    use = {"echo": f"echo({call});", "arith": f"echo({call} + 1);", "decl": f"int v = {call}; echo(v);"}[case["use"]]
    src = helpers + decl + "function main() -> void { " + pre + use + " echo(\"end\"); }\n"
    # expected
    out = []
    ret = None
    for j in range(2 if case["nested"] else 1):
        if case["nested"]:
            out.append(f"o{j}")
        i = 0
        while i < n:
            if case["body_echo"]:
                out.append(f"b{i}")
            if i == r:
                ret = 100 + i
                break
            if step == "tick":
                out.append("t")
            i += 1
        if ret is not None:
            break
    if ret is None:
        ret = -1
    out.append(str(ret + 1 if case["use"] == "arith" else ret))
    out.append("end")
    return src, out


class C07(Check):
    prop = "C07"
    rule = ("programs from the typed `classic` generator (1-4 functions + main, all operators, casts, arrays, loops, "
            "recursion); reference interpreter from the docs; discarded when the reference says Undocumented. "
            "non-trivial = >=1 loop or call, >=3 distinct operator kinds, >=1 echo line, not discarded; distinct = SHA-1 of "
            "the program tree")
    assumptions = ["pbt/ref_classic.py encodes the documented semantics (sources cited in DESIGN.md C07)",
                   "numeric output tokens are compared with relative tolerance 1e-5",
                   "on a runtime error only the error kind is compared"]
    floors = {"__nontrivial__": (1500, 20000), "agree_error": (100, 1000)}

    def widen_run(self, case, sc, stats=None):
        src, want = widen_program(case)
        r = progrun.run_cli(self.drv, sc, src)
        if r.proc.timeout:
            return None
        if stats is not None:
            big = abs(case["e"]) >= 2 ** 30 or abs(case["x"]) >= 2 ** 30
            stats.record(case, big, tags=["widening_family"] + ["site_" + x for x in set(case["sites"])],
                         sample={"main": src[src.index("function main"):], "expected": want})
        if r.diag and r.diag["cat"] in ("Lexical", "Parse", "Semantic"):
            return {"why": f"well-typed widening program rejected: {r.diag}", "source": src}
        if r.proc.crashed() or r.rc != 0:
            return {"why": f"widening program failed: rc={r.rc} {r.stderr_lines[-1:]}", "source": src, **r.proc.brief()}
        if list(r.stdout_lines) != want:
            return {"why": "an int stored into a long slot did not behave as a long", "expected": want, "got": list(r.stdout_lines), "source": src}
        return None

    def loop_run(self, case, sc, stats=None):
        src, want = loop_program(case)
        r = progrun.run_cli(self.drv, sc, src)
        if r.proc.timeout:
            return None
        if stats is not None:
            stats.record(case, case["r"] < case["n"], tags=["loop_return_family", "step_" + case["step"]],
                         sample={"source": src, "expected": want})
        if r.diag and r.diag["cat"] in ("Lexical", "Parse", "Semantic"):
            return {"why": f"well-typed loop program rejected: {r.diag}", "source": src}
        if r.proc.crashed() or r.rc != 0:
            return {"why": f"loop program failed: rc={r.rc} {r.stderr_lines[-1:]}", "source": src, "expected": want, **r.proc.brief()}
        if list(r.stdout_lines) != want:
            return {"why": "returning from inside a for loop: output differs", "expected": want, "got": list(r.stdout_lines), "source": src}
        return None

    def run_case(self, p, sc, stats=None):
        if p.get("kind") == "widen":
            return self.widen_run(p, sc, stats)
        if p.get("kind") == "loop":
            return self.loop_run(p, sc, stats)
        try:
            ref = ref_classic.run_reference(p)
        except ref_classic.Undocumented as u:
            if stats is not None:
                stats.count("discarded_undocumented")
                stats.evaluations += 0
            return None
        src = genprog.render_program(p)
        r = progrun.run_cli(self.drv, sc, src)
        if r.proc.timeout:
            if stats is not None:
                stats.inconclusive += 1
            return None
        if stats is not None:
            ops, feats = genprog.features(p)
            nt = (("loop" in feats) or ("call" in feats)) and len(ops) >= 3 and ("echo" in feats)
            tags = ["agree_ok" if ref[0] == "ok" else "agree_error"]
            if r.diag and r.diag["cat"] != "Runtime":
                tags = ["rejected_by_analyser"]
                nt = False
            stats.record(p, nt, sample={"source": src, "expected": ref} if len(src) < 1500 else None, tags=tags)
        if r.diag and r.diag["cat"] in ("Lexical", "Parse", "Semantic"):
            # the generator only emits documented, well-typed programs: a rejection is a disagreement with the docs
            return {"why": f"well-typed program rejected: {r.diag}", "source": src}
        if r.proc.crashed() or r.rc not in (0, 1):
            return {"why": "interpreter died", "source": src, **r.proc.brief()}
        if ref[0] == "ok":
            if r.rc != 0:
                return {"why": f"reference prints {ref[1]!r} but the run failed: {r.stderr_lines[-1:]}", "source": src}
            if not progrun.outputs_equal(r.stdout_lines, ref[1]):
                return {"why": "echo output differs", "expected": ref[1], "got": r.stdout_lines, "source": src}
        else:
            if r.rc != 1 or r.error_kind() != ref[1]:
                return {"why": f"reference raises {ref[1]!r}, got rc={r.rc} {r.stderr_lines[-1:]} out={r.stdout_lines[:5]}",
                        "source": src}
        return None

    def oracle(self, case):
        with Scratch("c07") as sc:
            return self.run_case(case, sc)

    def classify(self, case, why=None):
        if case.get("kind") in ("widen", "loop"):
            return None
        for k, pred in SIGNATURES.items():
            if pred(case):
                return k
        return None

    def search(self, tier, seed):
        return run_workers(_worker, seed, tier=tier, check=self)


def _worker(widx, wseed, tier, check):
    stats = Stats()
    failures = []
    act = common.active_keys("C07")
    with Scratch("c07") as sc:
        def prop(case, stats):
            for k in act:
                if case.get("kind") not in ("widen", "loop") and SIGNATURES[k](case):
                    stats.excluded[k] = stats.excluded.get(k, 0) + 1
                    return
            why = check.run_case(case, sc, stats)
            if why is not None:
                raise Failure(why)
        f = hyp_search(genprog.classic_program(), prop, wseed, 400 if tier == "quick" else 8000, stats)
        if f:
            failures.append(f)
        f = hyp_search(widen_case(), prop, common.derive_seed(wseed, "widen"), 60 if tier == "quick" else 1500, stats)
        if f:
            failures.append(f)
        f = hyp_search(loop_case(), prop, common.derive_seed(wseed, "loop"), 60 if tier == "quick" else 1500, stats)
        if f:
            failures.append(f)
    return {"stats": stats.export(), "failures": failures}


if __name__ == "__main__":
    sys.exit(C07().main(sys.argv[1:]))
