"""C04 — reset is local: the target goes to |0> and is unentangled, the other qubits' statistics are unchanged.

(i) exact: after reset every amplitude with the target bit set is 0 (so the target is |0> and a tensor factor).
(ii) locality, implementation-agnostic: the reset is executed K times from the same prepared state (seeded RNG);
     the observed post-states are clustered, each cluster's reduced density matrix of the OTHER qubits is weighted
     by its observed frequency, and the mixture is compared with rho_rest obtained from psi_before by partial trace:
     max entry error <= 6 sqrt(1/(4K)) + 1e-9.  A projection-style reset has one branch and fails for every
     entangled target.
Program level (pbt/qprog.py): reset statement, object destruction and index re-use paths, partner marginals.
"""
import math
import sys

import numpy as np
from hypothesis import strategies as st

from .. import ref_quantum as rq
from .. import simdrv
from ..common import Check, Failure, Scratch, Stats, derive_seed, hyp_search, run_workers


@st.composite
def reset_case(draw, max_n):
    n = draw(st.integers(2, max_n))
    q = draw(st.integers(0, n - 1))
    others = [k for k in range(n) if k != q]
    prep = []
    shape = draw(st.integers(0, 3))
    if shape == 0:  # Bell/GHZ-like with tunable weight
        p = draw(st.sampled_from([0.1, 0.25, 0.5, 0.75, 0.9]))
        prep.append(["ry", q, 2 * math.asin(math.sqrt(p))])
        for o in draw(st.lists(st.sampled_from(others), min_size=1, max_size=len(others), unique=True)):
            prep.append(["cx", q, o])
    elif shape == 1:  # partner controls the target
        o = draw(st.sampled_from(others))
        prep += [["h", o], ["cx", o, q]]
    prep += [list(g) for g in draw(st.lists(simdrv.gate_op(n), min_size=0, max_size=2 * n + 2))]
    return {"kind": "sim", "n": n, "prep": prep, "q": q, "seed": draw(st.integers(0, 2**31 - 1))}


class C04(Check):
    prop = "C04"
    rule = ("random entangled states (n<=4/6) with an unmeasured reset target; K seeded repetitions of the reset, "
            "frequency-weighted reduced density matrix of the other qubits vs partial trace of psi_before; plus exact "
            "target=|0> check on every observed branch. non-trivial = target entangled with >=1 other qubit and "
            "0.05 < p1 < 0.95; distinct = SHA-1 of the case")
    assumptions = ["numpy partial trace", "tolerance 6 sigma of the branch-frequency estimate; seeds deterministic",
                   "psi_before is read from the implementation (gate correctness is C01's job)"]
    floors = {"__nontrivial__": (200, 2000), "two_branches_observed": (100, 1000)}
    K = 3000

    def sim_oracle(self, case, sc, stats=None):
        n, q = case["n"], case["q"]
        K = self.K
        prep = [tuple(p) for p in case["prep"]]
        ops = [("new",)] + [("alloc",)] * n + prep + [("dump",)] + \
              [("seed", case["seed"]), ("repeat", K)] + [("alloc",)] * n + prep + [("reset", q), ("end",)]
        r = simdrv.run_script(self.drv, sc, ops, timeout=120)
        if r.timeout:
            if stats is not None:
                stats.inconclusive += 1
            return None
        if r.crashed() or r.rc != 0:
            return {"why": "simulator process died", **r.brief()}
        objs = r.json_lines()
        errs = [o for o in objs if o.get("ok") is False]
        if errs:
            return {"why": "simulator raised on a valid history", "obs": errs[0]}
        dumps = [o for o in objs if "state" in o and "repeat" not in o]
        reps = [o for o in objs if "repeat" in o]
        if len(dumps) != 1 or len(reps) != 1:
            return {"why": "unexpected driver output", **r.brief()}
        before = rq.from_json(dumps[0]["state"])
        others = [k for k in range(n) if k != q]
        rho_before = rq.reduced_density(before, others)
        rho_after = np.zeros_like(rho_before)
        total = 0
        idx = np.arange(1 << n)
        distinct = []
        for br in reps[0]["branches"]:
            if br["key"].startswith("ERR"):
                return {"why": "simulator raised on a valid history", "obs": br["key"]}
            psi = rq.from_json(br["state"])
            if len(psi) != (1 << n) or not np.all(np.isfinite(psi)) or abs(np.linalg.norm(psi) - 1) > 1e-9:
                return {"why": "post-reset state is not a unit vector of the right size"}
            if float(np.max(np.abs(psi[((idx >> q) & 1) == 1]))) != 0.0:
                return {"why": f"after reset q{q} some amplitude with the target bit set is non-zero"}
            rho_after += br["count"] * rq.reduced_density(psi, others)
            total += br["count"]
            if not any(rq.equal_up_to_phase(psi, d, 1e-6) for d in distinct):
                distinct.append(psi)
        if total != K:
            return {"why": "branch counts do not add up"}
        rho_after /= K
        err = float(np.max(np.abs(rho_after - rho_before)))
        tol = 6 * math.sqrt(0.25 / K) + 1e-9
        p1 = rq.prob1(before, q)
        ent = rq.schmidt_entangled(before, q, 1e-6)
        if stats is not None:
            tags = ["sim"]
            if len(distinct) >= 2:
                tags.append("two_branches_observed")
            if ent:
                tags.append("entangled_target")
            stats.record(case, ent and 0.05 < p1 < 0.95, sample=case, tags=tags)
        if err > tol:
            return {"why": f"reset q{q} changed the reduced state of the other qubits: max entry error {err:.4f} > {tol:.4f} "
                           f"(p1 before = {p1:.4f}, {len(distinct)} distinct post-states over {K} runs)"}
        return None

    def oracle(self, case):
        with Scratch("c04") as sc:
            if case["kind"] == "sim":
                return self.sim_oracle(case, sc)
            if case["kind"] == "program":
                from .. import qchecks
                return qchecks.c04_program_oracle(self, case, sc)
        return None

    def search(self, tier, seed):
        return run_workers(_worker, seed, tier=tier, check=self)


def _worker(widx, wseed, tier, check):
    stats = Stats()
    failures = []
    quick = tier == "quick"
    with Scratch("c04") as sc:
        def prop(case, stats):
            why = check.sim_oracle(case, sc, stats)
            if why is not None:
                raise Failure(why)
        f = hyp_search(reset_case(4 if quick else 6), prop, wseed, 60 if quick else 1200, stats)
        if f:
            failures.append(f)
        from .. import qchecks as qprog
        if True:
            f = qprog.c04_program_search(check, sc, derive_seed(wseed, "prog"), 40 if quick else 800, stats)
            if f:
                failures.append(f)
    return {"stats": stats.export(), "failures": failures}


if __name__ == "__main__":
    sys.exit(C04().main(sys.argv[1:]))
