"""C03 — the state stays a unit 2^n vector and qubit handles stay distinct, in any history.

Simulator level (model-based history generation): a history of alloc / gate / cx / measure / reset
operations is generated against a tiny model (per-qubit active vs measured, so only valid operations
are produced), executed in one process with the amplitudes dumped after every step, and every step
is checked:  length == 2^n, all amplitudes finite, | ||psi||^2 - 1 | <= 1e-9;  alloc gives exactly
psi_old (x) |0> (old amplitudes bit-identical, new half zero);  gates as C01;  measure as C02;  reset
yields ONE OF the valid branches (P0 psi/sqrt(p0) or X P1 psi/sqrt(p1), whichever has p > 0) - a
validity predicate, because several outputs are correct.
Program level (pbt/qprog.py): handle -> simulator index reconstruction from the emitted QASM.
"""
import math
import sys

import numpy as np
from hypothesis import strategies as st

from .. import ref_quantum as rq
from .. import simdrv
from ..common import Check, Failure, Scratch, Stats, derive_seed, hyp_search, run_workers


@st.composite
def history(draw, max_n, max_steps):
    steps = []
    n = 0
    measured = set()
    entangled = False
    nsteps = draw(st.integers(2, max_steps))
    for _ in range(nsteps):
        active = [q for q in range(n) if q not in measured]
        choices = []
        if n < max_n:
            choices += ["alloc", "alloc"]
        if active:
            choices += ["gate", "gate", "gate", "measure", "reset", "special"]
        if len(active) >= 2:
            choices += ["cx", "cx", "bell"]
        if measured:
            choices += ["reset_measured"]
        k = draw(st.sampled_from(choices))
        if k == "alloc":
            steps.append(["alloc"])
            n += 1
        elif k == "gate":
            q = draw(st.sampled_from(active))
            g = draw(st.sampled_from(["h", "x", "y", "z", "rx", "ry", "rz"]))
            steps.append([g, q] + ([draw(simdrv.angle)] if g[0] == "r" else []))
        elif k == "cx":
            c = draw(st.sampled_from(active))
            t = draw(st.sampled_from([q for q in active if q != c]))
            steps.append(["cx", c, t])
        elif k == "bell":
            c = draw(st.sampled_from(active))
            t = draw(st.sampled_from([q for q in active if q != c]))
            steps += [["h", c], ["cx", c, t]]
        elif k == "special":  # near-certain outcomes / certainly-1 resets
            q = draw(st.sampled_from(active))
            which = draw(st.integers(0, 2))
            if which == 0:
                steps += [["ry", q, 2e-9], ["measure", q]]
                measured.add(q)
            elif which == 1:
                steps += [["reset", q], ["x", q], ["reset", q]]
            else:
                steps += [["reset", q], ["x", q], ["ry", q, 1e-8], ["measure", q]]
                measured.add(q)
        elif k == "measure":
            q = draw(st.sampled_from(active))
            steps.append(["measure", q])
            measured.add(q)
        elif k == "reset":
            q = draw(st.sampled_from(active))
            steps.append(["reset", q])
        elif k == "reset_measured":
            q = draw(st.sampled_from(sorted(measured)))
            steps.append(["reset", q])
            measured.discard(q)
    return {"kind": "history", "steps": steps, "seed": draw(st.integers(0, 2**31 - 1))}


class C03(Check):
    prop = "C03"
    rule = ("model-based histories (alloc/gate/cx/measure/reset with active/measured preconditions, <=25/40 steps, <=6/9 "
            "qubits) with all invariants checked after every step; program-level handle/index reconstruction. "
            "non-trivial = history contains an allocation after an entangling gate, or (programs) a release followed by "
            "re-use while another handle is live; distinct = SHA-1 of the case")
    assumptions = ["numpy reference", "amplitude accessor hook", "reset may take either branch with non-zero probability"]
    floors = {"__nontrivial__": (500, 5000), "alloc_after_entangle": (300, 3000), "reset_certain_one": (50, 500),
              "reset_entangled": (50, 500)}

    def history_oracle(self, case, sc, stats=None):
        ops = [("new",), ("seed", case["seed"])]
        for s in case["steps"]:
            ops += [tuple(s), ("dump",)]
        r = simdrv.run_script(self.drv, sc, ops)
        if r.timeout:
            if stats is not None:
                stats.inconclusive += 1
            return None
        if r.crashed() or r.rc != 0:
            return {"why": "simulator process died", **r.brief()}
        objs = r.json_lines()
        errs = [o for o in objs if o.get("ok") is False]
        if errs:
            return {"why": "simulator raised on a valid history", "obs": errs[0]}
        dumps = [o for o in objs if "state" in o]
        meas = [o for o in objs if "measure" in o]
        if len(dumps) != len(case["steps"]):
            return {"why": "unexpected driver output", **r.brief()}
        psi = np.array([1], dtype=complex)
        n = 0
        mi = 0
        tags = ["history"]
        ent_seen = False
        nontriv = False
        for i, s in enumerate(case["steps"]):
            cur = rq.from_json(dumps[i]["state"])
            where = f"step {i} {s}"
            if s[0] == "alloc":
                n += 1
            if len(cur) != (1 << n) or dumps[i]["nq"] != n:
                return {"why": f"{where}: state has {len(cur)} amplitudes for {n} qubits"}
            if not np.all(np.isfinite(cur)):
                return {"why": f"{where}: non-finite amplitudes"}
            nrm = float(np.sum(np.abs(cur) ** 2))
            if abs(nrm - 1) > 1e-9:
                return {"why": f"{where}: squared norm {nrm!r}"}
            if s[0] == "alloc":
                want = rq.extend(psi)
                if not np.array_equal(cur, want):
                    return {"why": f"{where}: allocation did not give psi_old (x) |0> exactly"}
                if ent_seen:
                    tags.append("alloc_after_entangle")
                    nontriv = True
            elif s[0] == "measure":
                res = meas[mi]["r"]
                mi += 1
                want, p = rq.project(psi, s[1], res)
                if p <= 0:
                    return {"why": f"{where}: reported outcome {res} of probability 0"}
                if not rq.equal_up_to_phase(cur, want, 1e-9):
                    return {"why": f"{where}: not the normalised projection onto outcome {res}"}
            elif s[0] == "reset":
                p1 = rq.prob1(psi, s[1])
                if p1 > 1 - 1e-12:
                    tags.append("reset_certain_one")
                if rq.schmidt_entangled(psi, s[1]):
                    tags.append("reset_entangled")
                ok = False
                for br in (0, 1):
                    want, p = rq.reset_branch(psi, s[1], br)
                    if p > 1e-300 and rq.equal_up_to_phase(cur, want, 1e-9):
                        ok = True
                if not ok:
                    return {"why": f"{where}: post-reset state is neither valid branch (p1 before = {p1:.6g})"}
            else:
                want = rq.apply(psi, tuple(s))
                if not rq.equal_up_to_phase(cur, want, 1e-9):
                    return {"why": f"{where}: gate result differs from reference"}
                if s[0] == "cx":
                    ent_seen = True
            psi = cur  # continue from the implementation's state so errors do not compound
        if stats is not None:
            stats.record(case, nontriv, sample=case, tags=sorted(set(tags)))
        return None

    def oracle(self, case):
        with Scratch("c03") as sc:
            if case["kind"] == "history":
                return self.history_oracle(case, sc)
            if case["kind"] == "program":
                from .. import qchecks
                return qchecks.c03_program_oracle(self, case, sc)
        return None

    def search(self, tier, seed):
        return run_workers(_worker, seed, tier=tier, check=self)


def _worker(widx, wseed, tier, check):
    stats = Stats()
    failures = []
    quick = tier == "quick"
    with Scratch("c03") as sc:
        def prop(case, stats):
            why = check.history_oracle(case, sc, stats)
            if why is not None:
                raise Failure(why)
        f = hyp_search(history(6 if quick else 9, 25 if quick else 40), prop, wseed, 600 if quick else 7000, stats)
        if f:
            failures.append(f)
        from .. import qchecks as qprog
        if True:
            f = qprog.c03_program_search(check, sc, derive_seed(wseed, "prog"), 150 if quick else 3000, stats)
            if f:
                failures.append(f)
    return {"stats": stats.export(), "failures": failures}


if __name__ == "__main__":
    sys.exit(C03().main(sys.argv[1:]))
