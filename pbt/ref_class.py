"""Reference model of the documented object model (C08), extending the classical reference interpreter.

Written from docs/bloch_class_system.md and the property statement:
 * construction is base-first: base constructor (explicit super(args) or the implicit zero-argument one), then the class's
   own field initialisers in declaration order, then the constructor body; `= default` binds parameters to same-named fields;
 * a virtual call runs the most-derived override of the receiver's DYNAMIC class (also when written as a bare call inside a
   method); super.m() runs the base version; non-virtual methods are bound statically;
 * the overload that executes is the one resolved from the STATIC argument types (the generator records it in the call node);
 * static fields are shared per class (also when reached through a derived class name);
 * destructors run derived-first when the last reference disappears (destroy, scope exit, overwrite), not while an alias lives.
"""
from . import ref_classic
from .ref_classic import BlochRuntimeError, Undocumented, _Return, convert, to_string


class Obj:
    _next = 0

    def __init__(self, cls):
        self.cls = cls
        self.fields = {}
        self.rc = 0
        self.dead = False
        Obj._next += 1
        self.oid = Obj._next


class Interp(ref_classic.Interp):
    def __init__(self, prog):
        super().__init__(prog)
        self.classes = {c["name"]: c for c in prog["classes"]}
        self.statics = {}
        self.this_stack = [None]
        self.class_stack = [None]
        self.held = [[]]
        for c in prog["classes"]:
            for f in c["fields"]:
                if f.get("static"):
                    self.statics[(c["name"], f["name"])] = [f["t"], None]
        # static initialisers run before main
        for c in prog["classes"]:
            for f in c["fields"]:
                if f.get("static") and f.get("init") is not None:
                    self.class_stack.append(c["name"])
                    self.statics[(c["name"], f["name"])][1] = convert(self.eval(f["init"], [{}]), f["init"]["t"], f["t"])
                    self.class_stack.pop()

    # ---- class table helpers
    def ancestors(self, name):
        out = []
        while name and name in self.classes:
            out.append(self.classes[name])
            name = self.classes[name].get("base")
        return out

    def find_method(self, cname, mname, sig):
        for c in self.ancestors(cname):
            for m in c["methods"]:
                if m["name"] == mname and [t for t, _ in m["params"]] == list(sig):
                    return c, m
        raise Undocumented(f"no method {mname}{sig} in {cname}")

    def static_owner(self, cname, fname):
        for c in self.ancestors(cname):
            if (c["name"], fname) in self.statics:
                return (c["name"], fname)
        return None

    # ---- reference counting
    def incref(self, v):
        if isinstance(v, Obj):
            v.rc += 1

    def decref(self, v):
        if isinstance(v, Obj) and not v.dead:
            v.rc -= 1
            if v.rc <= 0:
                self.destroy(v)

    def destroy(self, o):
        if o.dead:
            return
        o.dead = True
        for c in self.ancestors(o.cls["name"]):
            if c.get("dtor"):
                self.this_stack.append(o)
                self.class_stack.append(c["name"])
                try:
                    self.block(c["dtor"]["body"], [{}])
                except _Return:
                    pass
                finally:
                    self.this_stack.pop()
                    self.class_stack.pop()
        for slot in list(o.fields.values()):
            if isinstance(slot[1], Obj):
                v, slot[1] = slot[1], None
                self.decref(v)

    def hold(self, v):
        """A value in flight (fresh object, returned object) stays alive until the end of the current statement."""
        if isinstance(v, Obj):
            v.rc += 1
            self.held[-1].append(v)
        return v

    # ---- scopes release their object references
    def release_scope(self, sc):
        for slot in sc.values():
            if isinstance(slot[1], Obj):
                v, slot[1] = slot[1], None
                self.decref(v)

    def block(self, body, env, new_scope=True):
        if new_scope:
            env.append({})
        try:
            for s in body:
                self.stmt(s, env)
        finally:
            if new_scope:
                self.release_scope(env.pop())

    def call(self, f, args, this=None, cls=None):
        self.depth += 1
        if self.depth > 60:
            raise Undocumented("recursion depth")
        env = [{}]
        for (pt, pn), a in zip(f["params"], args):
            env[0][pn] = [pt, a]
            self.incref(a)
        self.this_stack.append(this)
        self.class_stack.append(cls)
        rv = None
        try:
            try:
                self.block(f["body"], env, new_scope=False)
            except _Return as r:
                rv = r.v
                if isinstance(rv, Obj):
                    rv.rc += 1  # survives the unwinding of the callee's scope
        finally:
            self.this_stack.pop()
            self.class_stack.pop()
            while env:
                self.release_scope(env.pop())
            self.depth -= 1
        if isinstance(rv, Obj):
            rv.rc -= 1
            self.hold(rv)
        return rv

    def stmt(self, s, env):
        self.held.append([])
        try:
            self._stmt(s, env)
        finally:
            for v in self.held.pop():
                self.decref(v)

    def _stmt(self, s, env):
        k = s["k"]
        if k == "decl" and s["t"] in self.classes:
            self.tick()
            v = self.eval(s["init"], env) if s.get("init") is not None else None
            self.incref(v)
            env[-1][s["name"]] = [s["t"], v]
            return
        if k == "assign":
            slot = self.lookup(env, s["name"])
            if slot[0] in self.classes:
                self.tick()
                v = self.eval(s["e"], env)
                self.incref(v)
                old, slot[1] = slot[1], v
                self.decref(old)
                return
        if k == "fset":
            self.tick()
            o = self.eval(s["obj"], env)
            if o is None:
                raise BlochRuntimeError("null reference")
            slot = o.fields[s["name"]]
            v = self.init_value(slot[0], s["e"], env) if slot[0] not in self.classes else self.eval(s["e"], env)
            self.incref(v)
            old, slot[1] = slot[1], v
            self.decref(old)
            return
        if k == "sfset":
            self.tick()
            key = self.static_owner(s["cls"], s["name"])
            slot = self.statics[key]
            slot[1] = self.init_value(slot[0], s["e"], env)
            return
        if k == "destroy":
            self.tick()
            slot = self.lookup(env, s["name"])
            old, slot[1] = slot[1], None
            self.decref(old)
            return
        if k == "ret":
            self.tick()
            raise _Return(None if s.get("e") is None else self.eval(s["e"], env))
        super().stmt(s, env)

    def init_value(self, t, e, env):
        if t in self.classes:
            return self.eval(e, env)
        return super().init_value(t, e, env)

    # ---- names: locals, then fields of the enclosing class, then statics of the class chain
    def lookup(self, env, name):
        for sc in reversed(env):
            if name in sc:
                return sc[name]
        this = self.this_stack[-1]
        if this is not None and name in this.fields:
            return this.fields[name]
        cls = self.class_stack[-1]
        if cls:
            key = self.static_owner(cls, name)
            if key:
                return self.statics[key]
        raise Undocumented("undeclared " + name)

    def eval(self, e, env):
        k = e["k"]
        if k == "var" and e.get("via_this"):
            self.tick()
            return self.this_stack[-1].fields[e["name"]][1]
        if k == "this":
            return self.this_stack[-1]
        if k == "null":
            return None
        if k == "fld":
            self.tick()
            o = self.eval(e["obj"], env)
            if o is None:
                raise BlochRuntimeError("null reference")
            return o.fields[e["name"]][1]
        if k == "sfld":
            self.tick()
            return self.statics[self.static_owner(e["cls"], e["name"])][1]
        if k == "new":
            return self.new(e, env)
        if k == "mcall":
            return self.mcall(e, env)
        if k == "bin" and e["op"] in ("==", "!=") and (e["l"]["t"] in self.classes or e["r"]["t"] in self.classes):
            l, r = self.eval(e["l"], env), self.eval(e["r"], env)
            return (l is r) if e["op"] == "==" else (l is not r)
        return super().eval(e, env)

    def args_for(self, params, args, env):
        out = []
        for (pt, _), a in zip(params, args):
            out.append(self.eval(a, env) if pt in self.classes else self.init_value(pt, a, env))
        return out

    def new(self, e, env):
        self.tick()
        cls = self.classes[e["cls"]]
        ct = cls["ctors"][e["ctor"]]
        args = self.args_for(ct["params"], e["args"], env)
        o = Obj(cls)
        for c in reversed(self.ancestors(cls["name"])):
            for f in c["fields"]:
                if not f.get("static"):
                    o.fields[f["name"]] = [f["t"], None]
        self.hold(o)
        self.construct(o, cls, ct, args)
        return o

    def construct(self, o, cls, ct, args):
        env = [{}]
        for (pt, pn), a in zip(ct["params"], args):
            env[0][pn] = [pt, a]
            self.incref(a)
        self.this_stack.append(o)
        self.class_stack.append(cls["name"])
        try:
            if cls.get("base"):
                bc = self.classes[cls["base"]]
                bct = bc["ctors"][ct["super_ctor"]]
                bargs = self.args_for(bct["params"], ct.get("super_args") or [], env)
                self.construct(o, bc, bct, bargs)
            for f in cls["fields"]:
                if not f.get("static") and f.get("init") is not None:
                    o.fields[f["name"]][1] = convert(self.eval(f["init"], [{}]), f["init"]["t"], f["t"])
            if ct.get("default"):
                for (pt, pn), a in zip(ct["params"], args):
                    if pn in o.fields:
                        o.fields[pn][1] = a
            else:
                try:
                    self.block(ct["body"], env, new_scope=False)
                except _Return:
                    pass
        finally:
            self.this_stack.pop()
            self.class_stack.pop()
            while env:
                self.release_scope(env.pop())

    def mcall(self, e, env):
        self.tick()
        if e.get("static"):
            c, m = self.find_method(e["static"], e["name"], e.get("sig") or [a["t"] for a in e["args"]])
            args = self.args_for(m["params"], e["args"], env)
            return self.finish(self.call(m, args, None, c["name"]), m)
        if e["obj"] == "super":
            recv = self.this_stack[-1]
            c, m = self.find_method(e["recv"], e["name"], e["sig"])
            args = self.args_for(m["params"], e["args"], env)
            return self.finish(self.call(m, args, recv, c["name"]), m)
        if e["obj"] is None:
            recv = self.this_stack[-1]
        else:
            recv = self.eval(e["obj"], env)
        c, m = self.find_method(e["recv"], e["name"], e["sig"])
        args = self.args_for(m["params"], e["args"], env)
        if recv is None:
            raise BlochRuntimeError("null reference")
        if m["kind"] in ("virtual", "override"):
            c, m = self.find_method(recv.cls["name"], e["name"], e["sig"])
        return self.finish(self.call(m, args, recv, c["name"]), m)

    def finish(self, rv, m):
        if m["ret"] == "void":
            return None
        if rv is None and m["ret"] not in self.classes:
            raise Undocumented("missing return")
        return rv


def run_reference(prog):
    if ref_classic.static_undocumented(prog):
        raise Undocumented("constant zero divisor")
    Obj._next = 0
    it = Interp(prog)
    res = it.run()
    return res
