"""Shared machinery: seeds, workers, Hypothesis driving, evidence, replays, known findings."""
import hashlib
import json
import multiprocessing as mp
import os
import shutil
import subprocess
import sys
import tempfile
import time
import traceback

from . import build as _build

VERIF = _build.VERIF
_OUT = os.environ.get("VERIF_OUT", VERIF)  # mutant/sensitivity runs redirect their output
EVIDENCE_DIR = os.path.join(_OUT, "evidence")
REPLAY_DIR = os.path.join(_OUT, "replays")
FINDINGS_DIR = os.path.join(VERIF, "findings")
CORPUS_DIR = os.path.join(VERIF, "corpus")
KNOWN_FILE = os.path.join(VERIF, "known_findings.json")
NWORKERS = int(os.environ.get("VERIF_WORKERS", "16"))
CASE_TIMEOUT = 20.0

SCRATCH_ROOT = "/dev/shm" if os.path.isdir("/dev/shm") and os.access("/dev/shm", os.W_OK) else tempfile.gettempdir()


def derive_seed(seed, *parts):
    h = hashlib.sha256(("%d|" % seed + "|".join(str(p) for p in parts)).encode()).digest()
    return int.from_bytes(h[:8], "big") & 0x7FFFFFFFFFFFFFFF


def case_hash(obj):
    return hashlib.sha1(json.dumps(obj, sort_keys=True, default=str).encode()).hexdigest()


class Scratch:
    """Per-worker scratch directory outside /repo and /verif, removed on exit."""

    def __init__(self, tag):
        self.dir = tempfile.mkdtemp(prefix=f"bverif-{tag}-", dir=SCRATCH_ROOT)

    def path(self, name):
        return os.path.join(self.dir, name)

    def write(self, name, data):
        p = self.path(name)
        os.makedirs(os.path.dirname(p), exist_ok=True)
        mode = "wb" if isinstance(data, (bytes, bytearray)) else "w"
        with open(p, mode) as f:
            f.write(data)
        return p

    def clear(self):
        for n in os.listdir(self.dir):
            p = os.path.join(self.dir, n)
            if os.path.isdir(p) and not os.path.islink(p):
                shutil.rmtree(p, ignore_errors=True)
            else:
                try:
                    os.unlink(p)
                except OSError:
                    pass

    def close(self):
        shutil.rmtree(self.dir, ignore_errors=True)

    def __enter__(self):
        return self

    def __exit__(self, *a):
        self.close()


ENV_BASE = dict(os.environ)
ENV_BASE.update({
    "BLOCH_NO_UPDATE_CHECK": "1",
    "ASAN_OPTIONS": "detect_leaks=0:abort_on_error=0:exitcode=97:allocator_may_return_null=1:detect_stack_use_after_return=0",
    "UBSAN_OPTIONS": "print_stacktrace=1:halt_on_error=1:exitcode=98",
    "TSAN_OPTIONS": "exitcode=96:halt_on_error=0",
    "LC_ALL": "C",
})
for k in ("BLOCH_VERIF_SHOT_SEED", "BLOCH_VERIF_SHOT_INDEX0", "CI", "BLOCH_OFFLINE", "BLOCH_STDLIB_PATH"):
    ENV_BASE.pop(k, None)


class ProcResult:
    __slots__ = ("rc", "signal", "out", "err", "timeout")

    def __init__(self, rc, out, err, timeout=False):
        self.timeout = timeout
        self.signal = -rc if rc is not None and rc < 0 else 0
        self.rc = rc
        self.out = out
        self.err = err

    @property
    def sanitizer(self):
        return self.rc in (96, 97, 98) or "ERROR: AddressSanitizer" in self.err or "runtime error:" in self.err \
            or "WARNING: ThreadSanitizer" in self.err

    def crashed(self):
        """Signal, sanitizer report: the things no property allows."""
        return bool(self.signal) or self.sanitizer

    def brief(self):
        tail = self.err[-1500:] if self.err else ""
        return {"rc": self.rc, "signal": self.signal, "timeout": self.timeout, "stderr_tail": tail}

    def json_lines(self):
        res = []
        for ln in self.out.splitlines():
            ln = ln.strip()
            if ln.startswith("{"):
                try:
                    res.append(json.loads(ln))
                except ValueError:
                    res.append({"unparsable": ln[:200]})
        return res


def _child_limits():
    # the sanitizer build has very large interpreter frames: give the tree-walking evaluator a deep stack so that
    # bounded recursion in generated programs is not mistaken for a crash
    import resource
    try:
        resource.setrlimit(resource.RLIMIT_STACK, (1 << 30, resource.RLIM_INFINITY))
    except (ValueError, OSError):
        pass


def run_proc(argv, cwd=None, env=None, timeout=CASE_TIMEOUT, stdin=None):
    e = dict(ENV_BASE)
    if env:
        e.update(env)
    try:
        p = subprocess.run(argv, cwd=cwd, env=e, input=stdin, stdout=subprocess.PIPE, stderr=subprocess.PIPE,
                           timeout=timeout, preexec_fn=_child_limits)
        return ProcResult(p.returncode, p.stdout.decode("latin-1"), p.stderr.decode("latin-1"))
    except subprocess.TimeoutExpired as ex:
        return ProcResult(None, (ex.stdout or b"").decode("latin-1"), (ex.stderr or b"").decode("latin-1"), True)


class Stats:
    def __init__(self):
        self.evaluations = 0
        self.nontrivial = set()
        self.counters = {}
        self.samples = []
        self.inconclusive = 0
        self.excluded = {}

    def count(self, key, n=1):
        self.counters[key] = self.counters.get(key, 0) + n

    def record(self, case, nontrivial, sample=None, tags=()):
        self.evaluations += 1
        for t in tags:
            self.count(t)
        if nontrivial:
            self.nontrivial.add(case_hash(case))
            if sample is not None and len(self.samples) < 4:
                self.samples.append(sample)

    def export(self):
        return {"evaluations": self.evaluations, "nontrivial": sorted(self.nontrivial), "counters": self.counters,
                "samples": self.samples, "inconclusive": self.inconclusive, "excluded": self.excluded}

    @staticmethod
    def merge(exports):
        m = Stats()
        for e in exports:
            m.evaluations += e["evaluations"]
            m.nontrivial.update(e["nontrivial"])
            for k, v in e["counters"].items():
                m.counters[k] = m.counters.get(k, 0) + v
            for k, v in e["excluded"].items():
                m.excluded[k] = m.excluded.get(k, 0) + v
            m.inconclusive += e["inconclusive"]
            for s in e["samples"]:
                if len(m.samples) < 6:
                    m.samples.append(s)
        return m


class Failure(Exception):
    def __init__(self, why, detail=None):
        super().__init__(why)
        self.why = why
        self.detail = detail


def hyp_search(strategy, prop, seed, max_examples, stats, max_shrinks_s=120):
    """Run `prop(case, stats)` over `strategy`.  prop returns None (held) or raises Failure.
    Returns None or {'case':…, 'why':…, 'detail':…} for the *shrunk* failing case."""
    import hypothesis
    from hypothesis import HealthCheck, Phase, given, settings

    last = {}
    shrink_budget_s = 25.0

    @hypothesis.seed(seed)
    @settings(max_examples=max_examples, database=None, deadline=None, report_multiple_bugs=False,
              suppress_health_check=list(HealthCheck), phases=[Phase.generate, Phase.shrink],
              print_blob=False, derandomize=False)
    @given(strategy)
    def t(case):
        # bound the time spent shrinking: once the budget is used up only the best failing case found so far keeps
        # failing, so Hypothesis stops and replays exactly that case
        if "t0" in last and time.time() - last["t0"] > shrink_budget_s:
            if case_hash(case) != last["hash"]:
                return
        try:
            prop(case, stats)
        except Failure as f:
            last.setdefault("t0", time.time())
            last["case"] = case
            last["hash"] = case_hash(case)
            last["why"] = f.why
            last["detail"] = f.detail
            raise

    try:
        t()
    except Failure:
        return dict(last)
    except hypothesis.errors.Flaky as fl:  # a case failed then passed: report, never a violation by itself
        stats.count("flaky")
        if last:
            d = dict(last)
            d["flaky"] = True
            return d
        return None
    return None


def _worker_entry(args):
    fn, widx, seed, kwargs = args
    try:
        return fn(widx, seed, **kwargs)
    except BaseException:
        return {"worker_error": traceback.format_exc()}


def run_workers(fn, seed, nworkers=None, **kwargs):
    """fn(widx, wseed, **kwargs) -> {'stats': Stats.export(), 'failures': [..]}; runs in forked workers."""
    n = nworkers or NWORKERS
    jobs = [(fn, i, derive_seed(seed, "w", i), kwargs) for i in range(n)]
    if n == 1:
        results = [_worker_entry(jobs[0])]
    else:
        from concurrent.futures import ProcessPoolExecutor
        from concurrent.futures.process import BrokenProcessPool
        ctx = mp.get_context("fork")
        try:
            with ProcessPoolExecutor(max_workers=n, mp_context=ctx) as ex:
                results = list(ex.map(_worker_entry, jobs))
        except BrokenProcessPool as e:
            sys.stderr.write(f"WORKER DIED (broken machinery, not a violation): {e}\n")
            raise SystemExit(2)
    errs = [r["worker_error"] for r in results if "worker_error" in r]
    if errs:
        sys.stderr.write("WORKER ERROR (broken machinery, not a violation):\n" + errs[0] + "\n")
        raise SystemExit(2)
    stats = Stats.merge([r["stats"] for r in results])
    failures = [f for r in results for f in r.get("failures", [])]
    return stats, failures


# ------------------------------------------------------------------ known findings

def load_known(prop):
    if not os.path.exists(KNOWN_FILE):
        return []
    with open(KNOWN_FILE) as f:
        data = json.load(f)
    return [e for e in data.get("findings", []) if e["property"] == prop]


def active_keys(prop):
    return {e["key"] for e in load_known(prop) if e["status"] == "known"}


# ------------------------------------------------------------------ check runner

class Check:
    """One property check.  Subclasses/instances provide:
       oracle(case) -> None | (why, detail)      (deterministic, bypasses Hypothesis; used for replay)
       classify(case) -> known-finding key or None
       search(tier, seed) -> (Stats, [failure dicts with 'case','why'])
    """
    prop = "C00"
    rule = ""
    assumptions = []
    floors = {}  # counter name -> minimum count (per tier: (quick, thorough))

    def __init__(self):
        self.violations = []
        self.known_hits = []
        self.t0 = time.time()

    # -- to override
    def oracle(self, case):
        raise NotImplementedError

    def classify(self, case, why=None):
        return None

    def search(self, tier, seed):
        raise NotImplementedError

    # -- helpers
    def confirm(self, case, times=3):
        """Re-run the deterministic oracle on the case; True iff it fails every time."""
        why = None
        for _ in range(times):
            r = self.oracle(case)
            if r is None:
                return None
            why = r
        return why

    def save_replay(self, case, why):
        d = os.path.join(REPLAY_DIR, self.prop)
        os.makedirs(d, exist_ok=True)
        p = os.path.join(d, case_hash(case)[:16] + ".json")
        with open(p, "w") as f:
            json.dump({"property": self.prop, "why": why if isinstance(why, (str, list, dict)) else str(why),
                       "case": case}, f, indent=1, default=str)
        return p

    def replay_findings(self):
        """Replay tier: committed reproducers of known / fixed findings and regression corpus."""
        n = 0
        for e in load_known(self.prop):
            rp = os.path.join(VERIF, e["reproducer"])
            with open(rp) as f:
                case = json.load(f)["case"]
            n += 1
            r = self.oracle(case)
            if e["status"] == "known":
                if r is not None:
                    print(f"KNOWN-FINDING: property={self.prop} {e['key']}: {e['what']}")
                    self.known_hits.append(e["key"])
                else:
                    print(f"note: known finding {e['key']} no longer reproduces (entry can be marked fixed)")
            else:  # fixed: suppresses nothing
                if r is not None and self.confirm(case) is not None:
                    # ... except when what fails on this input is a DIFFERENT, listed known finding
                    if self.classify(case, r) in active_keys(self.prop) and self.classify(case, r) != e["key"]:
                        continue
                    self.report_violation(case, r, path=rp)
        d = os.path.join(CORPUS_DIR, self.prop)
        if os.path.isdir(d):
            for fn in sorted(os.listdir(d)):
                if not fn.endswith(".json"):
                    continue
                with open(os.path.join(d, fn)) as f:
                    case = json.load(f)["case"]
                n += 1
                r = self.oracle(case)
                if r is not None:
                    key = self.classify(case, r)
                    if key in active_keys(self.prop):
                        continue
                    if self.confirm(case) is not None:
                        self.report_violation(case, r, path=os.path.join(d, fn))
        return n

    def report_violation(self, case, why, path=None):
        if path is None:
            path = self.save_replay(case, why)
        self.violations.append(path)
        print(f"VIOLATION property={self.prop} replay={path}")
        w = why if isinstance(why, str) else json.dumps(why, default=str)[:600]
        print(f"  why: {w[:600]}")

    def handle_failures(self, failures):
        act = active_keys(self.prop)
        seen = set()
        for f in failures:
            case = f["case"]
            h = case_hash(case)
            if h in seen:
                continue
            seen.add(h)
            key = self.classify(case, f.get("why"))
            if key is not None and key in act:
                # a listed finding that slipped past constructive exclusion: not a new violation
                continue
            why = self.confirm(case)
            if why is None:
                print(f"note: failure did not reproduce 3x, treated as inconclusive: {str(f.get('why'))[:200]}")
                continue
            self.report_violation(case, why)

    def write_evidence(self, tier, seed, stats, extra=None):
        os.makedirs(EVIDENCE_DIR, exist_ok=True)
        cov = {
            "evaluations": int(stats.evaluations),
            "distinct_nontrivial": len(stats.nontrivial),
            "rule": self.rule,
            "samples": stats.samples[:6],
            "class_distribution": dict(sorted(stats.counters.items())),
            "excluded_by_known_finding": stats.excluded,
            "inconclusive": stats.inconclusive,
            "known_findings_reproduced": self.known_hits,
        }
        if extra:
            cov.update(extra)
        ev = {"property_id": self.prop, "tier": tier, "seed": int(seed), "level": "exploration", "coverage": cov,
              "assumptions": self.assumptions, "wall_s": round(time.time() - self.t0, 2),
              "violations": len(self.violations)}
        with open(os.path.join(EVIDENCE_DIR, self.prop + ".json"), "w") as f:
            json.dump(ev, f, indent=1, default=str)

    def check_floors(self, tier, stats):
        bad = []
        for k, (q, t) in self.floors.items():
            need = q if tier == "quick" else t
            have = len(stats.nontrivial) if k == "__nontrivial__" else stats.counters.get(k, 0)
            if have < need:
                bad.append(f"{k}: {have} < {need}")
        if bad:
            sys.stderr.write(f"BROKEN MACHINERY (generator below class floors, not a violation): {bad}\n")
            return False
        return True

    def main(self, argv):
        tier = os.environ.get("VERIF_TIER", "quick")
        seed = int(os.environ.get("VERIF_SEED", "0") or 0)
        replay = None
        it = iter(argv)
        for a in it:
            if a in ("quick", "thorough"):
                tier = a
            elif a == "--replay":
                replay = next(it)
            elif a == "--seed":
                seed = int(next(it))
        self.prepare()
        if replay:
            with open(replay) as f:
                case = json.load(f)["case"]
            r = self.confirm(case)
            if r is None:
                print("replay: property held on this case")
                return 0
            print(f"VIOLATION property={self.prop} replay={replay}")
            print("  why:", (r if isinstance(r, str) else json.dumps(r, default=str))[:2000])
            return 1
        nrep = self.replay_findings()
        stats, failures = self.search(tier, seed)
        stats.count("replayed_regressions", nrep)
        self.handle_failures(failures)
        ok = self.check_floors(tier, stats)
        self.write_evidence(tier, seed, stats)
        if self.violations:
            return 1
        if not ok:
            return 2
        print(f"OK property={self.prop} tier={tier} seed={seed} evaluations={stats.evaluations} "
              f"distinct_nontrivial={len(stats.nontrivial)} wall={time.time() - self.t0:.1f}s")
        return 0

    def prepare(self):
        self.drv = _build.binary("verifdrv", "asan")
