"""Program-level halves of C01-C04 (the simulator-level halves live in checks/c01..c04.py)."""
import itertools
import math

import numpy as np
from hypothesis import strategies as st

from . import progrun, qprog
from . import ref_quantum as rq
from .common import Failure, hyp_search

Z = 5.5


def _run(check, sc, p, extra=()):
    src = qprog.render(p)
    r = progrun.run_api(check.drv, sc, src, ["--seed", str(p["seed"]), "--dump", "echo,tracked,qasm,state,outcomes"] + list(extra))
    if r.timeout:
        return src, None, None
    if r.crashed() or r.rc != 0:
        return src, None, {"why": "interpreter died", "source": src, **r.brief()}
    objs = [o for o in r.json_lines() if o.get("phase") in ("shot", "front")]
    if not objs:
        return src, None, {"why": "no result", **r.brief()}
    o = objs[0]
    if o.get("phase") == "front":
        return src, None, {"why": f"generated program rejected: {o.get('msg')}", "source": src}
    if not o.get("ok"):
        return src, None, {"why": f"valid program failed at run time: {o.get('msg')}", "source": src}
    return src, objs, None


# ------------------------------------------------------------------ C01 (c)

def c01_program_oracle(check, case, sc, stats=None):
    p = case["p"] if "p" in case else case
    src, objs, err = _run(check, sc, p)
    if err or objs is None:
        return err
    o = objs[0]
    it = qprog.Interp(p, []).run()
    handles = [e["hs"][0] for e in it.ops if e["kind"] == "alloc"]
    n = len(handles)
    if o["nq"] != n:
        return {"why": f"program declares {n} qubits, simulator holds {o['nq']}", "source": src}
    got = rq.from_json(o["state"])
    gates = [e for e in it.ops if e["kind"] != "alloc"]

    def simulate(perm):
        idx = {h: perm[i] for i, h in enumerate(handles)}
        psi = rq.zero_state(n)
        for e in gates:
            if e["kind"] == "cx":
                psi = rq.apply(psi, ("cx", idx[e["hs"][0]], idx[e["hs"][1]]))
            elif e["kind"] in ("rx", "ry", "rz"):
                psi = rq.apply(psi, (e["kind"], idx[e["hs"][0]], float(e["angle"])))
            else:
                psi = rq.apply(psi, (e["kind"], idx[e["hs"][0]]))
        return psi

    ok = rq.equal_up_to_phase(got, simulate(list(range(n))), 1e-6)
    if not ok and n <= 6:
        # the property speaks of addressed qubits, not of index numbers: accept any consistent qubit numbering
        for perm in itertools.permutations(range(n)):
            if rq.equal_up_to_phase(got, simulate(list(perm)), 1e-6):
                ok = True
                break
    if stats is not None:
        paths = {s[2] for s in _walk(p["main"]) if s[0] == "gate"}
        two = any(e["kind"] == "cx" for e in gates)
        stats.record(p, two and len(paths - {"direct"}) >= 1 and n >= 3,
                     sample={"source": src[src.index("function main"):]} if len(src) < 4000 else None, tags=["program"])
    if not ok:
        return {"why": "final amplitudes of a measurement-free program differ from the numpy simulation of its gate list",
                "source": src, "state": o["state"]}
    return None


def c01_program_search(check, sc, seed, n, stats):
    def prop(case, stats):
        why = c01_program_oracle(check, case, sc, stats)
        if why:
            raise Failure(why)
    strat = qprog.qprogram(max_q=6, nstmts=16, measure=False, objects=False, tracked=False).map(lambda p: {"kind": "program", "p": p})
    return hyp_search(strat, prop, seed, n, stats)


def _walk(stmts):
    for s in stmts:
        yield s
        if s[0] == "ifbit":
            yield from _walk(s[2])
            yield from _walk(s[3])
        elif s[0] == "block":
            yield from _walk(s[1])


# ------------------------------------------------------------------ C02 program level: agreement of bit / log / tracked / state

def c02_program_oracle(check, case, sc, stats=None):
    p = case["p"]
    src, objs, err = _run(check, sc, p)
    if err or objs is None:
        return err
    o = objs[0]
    try:
        it = qprog.Interp(p, o["outcomes"]).run()
        n, qops = qprog.parse_qasm(o["qasm"])
    except (qprog.ModelError, ValueError) as e:
        return {"why": f"log/QASM inconsistent with the program: {e}", "source": src}
    hmap, why = qprog.match_ops(it.ops, qops)
    if why:
        return {"why": why, "source": src}
    if o["echo"] != it.echo:
        return {"why": f"echoed bits {o['echo']} differ from the logged outcomes {it.echo}", "source": src}
    if o["tracked"] != it.tracked:
        return {"why": f"tracked outcomes {o['tracked']} differ from the logged measurement history {it.tracked}", "source": src}
    psi = rq.from_json(o["state"])
    checked = 0
    for h, v in it.last.items():
        if v is not None and h in it.live and h in hmap:
            p1 = rq.prob1(psi, hmap[h])
            checked += 1
            if abs(p1 - v) > 1e-9:
                return {"why": f"handle {h} was measured as {v} but the final state has P(1)={p1:.6f} for it", "source": src}
    if stats is not None:
        ent = any(e["kind"] == "cx" for e in it.ops)
        stats.record(p, ent and checked >= 1 and bool(it.tracked), tags=["program", "entangled_measure"] if ent else ["program"],
                     sample={"source": src[src.index("function main"):], "tracked": it.tracked} if len(src) < 4200 else None)
    return None


def c02_program_search(check, sc, seed, n, stats):
    def prop(case, stats):
        why = c02_program_oracle(check, case, sc, stats)
        if why:
            raise Failure(why)
    strat = qprog.qprogram(max_q=6, nstmts=16, tracked=True).map(lambda p: {"kind": "program", "p": p})
    return hyp_search(strat, prop, seed, n, stats)


# ------------------------------------------------------------------ C03 program level: handles stay distinct

def c03_program_oracle(check, case, sc, stats=None):
    p = case["p"]
    src, objs, err = _run(check, sc, p)
    if err or objs is None:
        return err
    o = objs[0]
    try:
        it = qprog.Interp(p, o["outcomes"]).run()
        n, qops = qprog.parse_qasm(o["qasm"])
    except (qprog.ModelError, ValueError) as e:
        return {"why": f"log/QASM inconsistent with the program: {e}", "source": src}
    hmap, why = qprog.match_ops(it.ops, qops)
    if why:
        return {"why": why, "source": src, "qasm": o["qasm"]}
    psi = rq.from_json(o["state"])
    if len(psi) != (1 << o["nq"]) or not np.all(np.isfinite(psi)) or abs(float(np.sum(np.abs(psi) ** 2)) - 1) > 1e-9:
        return {"why": "final state is not a finite unit vector of 2^n amplitudes", "source": src}
    nalloc = sum(1 for e in it.ops if e["kind"] == "alloc")
    if o["nq"] != nalloc:
        return {"why": f"{nalloc} fresh allocations but the simulator holds {o['nq']} qubits", "source": src}
    if stats is not None:
        reuse = any(e.get("implicit") == "reuse" for e in it.ops)
        stats.record(p, reuse, tags=["program"] + (["release_then_reuse"] if reuse else []),
                     sample={"source": src[src.index("function main"):], "qasm": o["qasm"]} if reuse and len(src) < 4200 else None)
    return None


@st.composite
def reuse_program(draw):
    """Objects owning qubits are destroyed and new ones created while other handles stay live."""
    p = draw(qprog.qprogram(max_q=8, nstmts=10, tracked=False))
    body = list(p["main"])
    k = draw(st.integers(1, 3))
    extra = []
    names = 900
    for _ in range(k):
        names += 1
        o = f"o{names}"
        q = f"q{names}"
        extra += [["qdecl", q, False], ["odecl", o], ["gate", "h", "self", [["field", o, "q"]], None],
                  ["gate", "cx", draw(st.sampled_from(["direct", "fn", "static"])), [["field", o, "q"], ["var", q]], None],
                  ["gate", draw(st.sampled_from(["x", "h", "z"])), "direct", [["felem", o, "r", draw(st.integers(0, 1))]], None],
                  ["destroy", o]]
        if draw(st.booleans()):
            extra.append(["mstmt", ["var", q]])
    # any object left alive by the random part would make two objects live at once: destroy it first
    pre = [["destroy", s[1]] for s in body if s[0] == "odecl" and not any(t[0] == "destroy" and t[1] == s[1] for t in body)]
    p["main"] = body + pre + extra
    return {"kind": "program", "p": p}


def c03_program_search(check, sc, seed, n, stats):
    def prop(case, stats):
        why = c03_program_oracle(check, case, sc, stats)
        if why:
            raise Failure(why)
    return hyp_search(reuse_program(), prop, seed, n, stats)


# ------------------------------------------------------------------ C04 program level: partner marginals over K seeded shots

@st.composite
def reset_program(draw):
    path = draw(st.sampled_from(["stmt", "destroy", "reuse", "stmt_elem", "reuse_stale", "destroy_stale"]))
    theta = draw(st.sampled_from([0.5, 1.0, 1.5, 2.0, 2.5]))
    return {"kind": "program", "path": path, "theta": theta, "seed": draw(st.integers(0, 2**31 - 1)),
            "gate": draw(st.sampled_from(["direct", "fn", "static"])), "which": draw(st.sampled_from(["q", "r[0]", "r[1]"])),
            "tq": draw(st.booleans()), "tr": draw(st.booleans())}


def c04_source(case):
    t = qprog.fang(case["theta"])
    cx = {"direct": "cx({a}, {b});", "fn": "g_cx({a}, {b});", "static": "QU.ap_cx({a}, {b});"}[case["gate"]]
    if case["path"] == "stmt":
        body = f"qubit a; qubit b; ry(a, {t}); {cx.format(a='a', b='b')} reset a; bit r = measure b; echo(r);"
    elif case["path"] == "stmt_elem":
        body = f"qubit[2] w; qubit b; ry(w[1], {t}); {cx.format(a='w[1]', b='b')} reset w[1]; bit r = measure b; echo(r);"
    elif case["path"] == "destroy":
        body = f"Holder o = new Holder(); qubit b; ry(o.q, {t}); {cx.format(a='o.q', b='b')} destroy o; bit r = measure b; echo(r);"
    elif case["path"] == "destroy_stale":
        # the released qubits are read back through handle copies that outlive the object: released = |0>, whether or not the
        # field is @tracked
        w = case.get("which", "q")
        body = (f"Holder o = new Holder(); qubit s = o.{w}; qubit b; ry(o.{w}, {t}); {cx.format(a='o.' + w, b='b')} destroy o; "
                f"bit r = measure s; echo(r);")
    elif case["path"] == "reuse_stale":
        # copies of the handles outlive the object: the released indices are disturbed (flipped, entangled with a live
        # qubit) before they are handed out again; the re-allocated qubits must still read 0
        body = (f"Holder o = new Holder(); qubit s = o.q; qubit s1 = o.r[0]; qubit s2 = o.r[1]; qubit b; ry(b, {t}); destroy o; "
                f"x(s); {cx.format(a='b', b='s1')} x(s2); Holder p = new Holder(); bit r = measure p.{case.get('which', 'q')}; echo(r);")
    else:
        body = (f"Holder o = new Holder(); qubit b; ry(o.r[1], {t}); {cx.format(a='o.r[1]', b='b')} destroy o; "
                f"Holder p = new Holder(); h(p.q); bit r = measure b; echo(r);")
    return qprog.prelude(bool(case.get("tq")), bool(case.get("tr"))) + "function main() -> void { " + body + " }\n"


def c04_program_oracle(check, case, sc, stats=None, K=300):
    src = c04_source(case)
    r = progrun.run_api(check.drv, sc, src, ["--seed", str(case["seed"]), "--shots", str(K), "--dump", "echo"], timeout=120)
    if r.timeout:
        return None
    if r.crashed() or r.rc != 0:
        return {"why": "interpreter died", "source": src, **r.brief()}
    shots = [o for o in r.json_lines() if o.get("phase") == "shot"]
    if len(shots) != K or not all(s.get("ok") and len(s["echo"]) == 1 for s in shots):
        bad = [s for s in shots if not s.get("ok")]
        return {"why": f"not all shots succeeded: {bad[:1] or r.json_lines()[:1]}", "source": src}
    ones = sum(int(s["echo"][0]) for s in shots)
    p1 = math.sin(float(np.float32(case["theta"])) / 2) ** 2
    if case["path"] in ("reuse_stale", "destroy_stale"):
        p1 = 0.0  # a released / re-allocated qubit reads 0 whatever happened to it before
    bound = Z * math.sqrt(K * p1 * (1 - p1)) + 1
    if stats is not None:
        stats.record(case, 0.05 < p1 < 0.95 or case["path"] in ("reuse_stale", "destroy_stale"), sample={"source": src[src.index("function main"):], "p1": p1, "ones": ones, "K": K},
                     tags=["program", "path_" + case["path"]])
    if p1 == 0.0:
        bound = 0.0
    if abs(ones - K * p1) > bound:
        return {"why": f"partner qubit measured 1 in {ones}/{K} shots after the target was reset through '{case['path']}', "
                       f"expected {K * p1:.1f} +- {bound:.1f}", "source": src}
    return None


def c04_program_search(check, sc, seed, n, stats):
    def prop(case, stats):
        why = c04_program_oracle(check, case, sc, stats)
        if why:
            raise Failure(why)
    return hyp_search(reset_program(), prop, seed, n, stats)
