"""Reference interpreter for the documented classical core (C07), written from docs/language/*.md,
docs/casting.md and the property statement - not from the C++.

Where the documentation does not fix a result the interpreter raises Undocumented and the case is
discarded (counted):  arithmetic leaving the declared width; % with a negative operand; float->int casts
out of range; float zero divisors; float comparisons that a 32-bit float implementation could decide
differently (near ties); more than STEP_LIMIT steps.
"""
import math

INT_MIN, INT_MAX = -(2**31), 2**31 - 1
LONG_MIN, LONG_MAX = -(2**63), 2**63 - 1
STEP_LIMIT = 20000


class Undocumented(Exception):
    pass


class BlochRuntimeError(Exception):
    def __init__(self, kind):
        super().__init__(kind)
        self.kind = kind


class _Return(Exception):
    def __init__(self, v):
        self.v = v


def fmt_float(v, in_array=False):
    if math.isfinite(v) and math.floor(v) == v and not in_array:
        return "%.1f" % v
    return "%g" % v


def to_string(t, v):
    if t == "string":
        return v
    if t in ("int", "long"):
        return str(v)
    if t == "float":
        return fmt_float(v)
    if t == "bit":
        return str(int(v))
    if t == "boolean":
        return "true" if v else "false"
    if t.endswith("[]"):
        et = t[:-2]
        if et == "float":
            return "{" + ", ".join(fmt_float(x, True) for x in v) + "}"
        return "{" + ", ".join(to_string(et, x) for x in v) + "}"
    raise Undocumented("echo of " + t)


def fit(t, v):
    if t == "int" and not (INT_MIN <= v <= INT_MAX):
        raise Undocumented("int overflow")
    if t == "long" and not (LONG_MIN <= v <= LONG_MAX):
        raise Undocumented("long overflow")
    return v


def convert(v, frm, to):
    """Implicit conversions the docs allow: identical type, int -> long."""
    if frm == to:
        return v
    if frm == "int" and to == "long":
        return v
    raise Undocumented(f"implicit conversion {frm}->{to}")


def elem_convert(v, frm, to):
    """Documented array-literal element conversions."""
    if frm == to:
        return v
    if to == "int" and frm == "bit":
        return int(v)
    if to == "int" and frm == "float":
        return cast_float_to_int(v, "int")
    if to == "float" and frm in ("int", "bit"):
        return float(v)
    if to == "long" and frm in ("int", "bit"):
        return int(v)
    raise Undocumented(f"array element conversion {frm}->{to}")


def cast_float_to_int(v, to):
    if not math.isfinite(v):
        raise Undocumented("cast of non-finite float")
    r = math.trunc(v)
    if abs(v - round(v)) < 1e-6 and v != round(v):
        raise Undocumented("float->int cast next to an integer boundary")
    lo, hi = (INT_MIN, INT_MAX) if to == "int" else (LONG_MIN, LONG_MAX)
    if not (lo <= r <= hi):
        raise Undocumented("float->int cast out of range")
    return r


def near_tie(a, b):
    return a != b and abs(a - b) <= 1e-6 * max(1.0, abs(a), abs(b))


class Interp:
    def __init__(self, prog):
        self.funcs = {f["name"]: f for f in prog["funcs"]}
        self.out = []
        self.steps = 0
        self.depth = 0

    def tick(self):
        self.steps += 1
        if self.steps > STEP_LIMIT:
            raise Undocumented("step limit")

    def run(self):
        """Returns ("ok", [lines]) or ("error", kind)."""
        try:
            self.call(self.funcs["main"], [])
        except BlochRuntimeError as e:
            return ("error", e.kind)
        return ("ok", self.out)

    def call(self, f, args):
        self.depth += 1
        if self.depth > 60:
            raise Undocumented("recursion depth")
        env = [{}]
        for (pt, pn), a in zip(f["params"], args):
            env[0][pn] = [pt, a]
        try:
            self.block(f["body"], env, new_scope=False)
            rv = None
        except _Return as r:
            rv = r.v
        self.depth -= 1
        return rv

    # ---- statements
    def block(self, body, env, new_scope=True):
        if new_scope:
            env.append({})
        try:
            for s in body:
                self.stmt(s, env)
        finally:
            if new_scope:
                env.pop()

    def lookup(self, env, name):
        for sc in reversed(env):
            if name in sc:
                return sc[name]
        raise Undocumented("undeclared " + name)

    def default(self, t, size):
        et = t[:-2]
        d = {"int": 0, "long": 0, "float": 0.0, "bit": 0, "boolean": False, "string": ""}[et]
        return [d] * size

    def stmt(self, s, env):
        self.tick()
        k = s["k"]
        if k == "decl":
            t = s["t"]
            if s.get("init") is None:
                if t.endswith("[]"):
                    v = self.default(t, s["size"])
                else:
                    raise Undocumented("uninitialised scalar")
            else:
                v = self.init_value(t, s["init"], env)
            env[-1][s["name"]] = [t, v]
        elif k == "assign":
            slot = self.lookup(env, s["name"])
            slot[1] = self.init_value(slot[0], s["e"], env)
        elif k == "aset":
            slot = self.lookup(env, s["name"])
            i = self.eval(s["i"], env)
            v = self.eval(s["e"], env)
            arr = slot[1]
            if not (0 <= i < len(arr)):
                raise BlochRuntimeError("out of bounds")
            et = slot[0][:-2]
            if s["e"]["t"] != et:
                raise Undocumented("element assignment with conversion")
            arr = list(arr)
            arr[i] = v
            slot[1] = arr
        elif k == "if":
            c = self.eval(s["c"], env)
            if self.truthy(c):
                self.block(s["then"], env)
            elif s.get("else") is not None:
                self.block(s["else"], env)
        elif k == "tern":
            c = self.eval(s["c"], env)
            self.stmt(s["then"] if self.truthy(c) else s["else"], env)
        elif k == "while":
            while self.truthy(self.eval(s["c"], env)):
                self.tick()
                self.block(s["body"], env)
        elif k == "for":
            env.append({})
            try:
                self.stmt(s["init"], env)
                while self.truthy(self.eval(s["c"], env)):
                    self.tick()
                    self.block(s["body"], env)
                    self.eval(s["inc"], env)
            finally:
                env.pop()
        elif k == "expr":
            self.eval(s["e"], env)
        elif k == "echo":
            v = self.eval(s["e"], env)
            self.out.append(to_string(s["e"]["t"], v))
        elif k == "ret":
            raise _Return(None if s.get("e") is None else self.eval(s["e"], env))
        elif k == "block":
            self.block(s["body"], env)
        else:
            raise ValueError(k)

    def truthy(self, v):
        return bool(v)

    def init_value(self, t, e, env):
        """Value of e stored into a slot of declared type t (arrays are copied: value semantics)."""
        if t.endswith("[]"):
            if e["k"] == "arrlit":
                et = t[:-2]
                return [elem_convert(self.eval(x, env), x["t"], et) for x in e["elems"]]
            v = self.eval(e, env)
            if e["t"] != t:
                raise Undocumented("array conversion")
            return list(v)
        return convert(self.eval(e, env), e["t"], t)

    # ---- expressions
    def eval(self, e, env):
        self.tick()
        k = e["k"]
        t = e["t"]
        if k == "lit":
            return e["v"]
        if k == "var":
            v = self.lookup(env, e["name"])[1]
            return list(v) if isinstance(v, list) else v
        if k == "arrlit":
            et = t[:-2]
            return [elem_convert(self.eval(x, env), x["t"], et) for x in e["elems"]]
        if k == "un":
            v = self.eval(e["e"], env)
            if e["op"] == "-":
                return fit(t, -v) if t != "float" else -v
            if e["op"] == "!":
                return not bool(v)
            if e["op"] == "~":
                if t == "bit[]":
                    return [0 if x else 1 for x in v]
                return 0 if v else 1
        if k == "cast":
            v = self.eval(e["e"], env)
            frm, to = e["e"]["t"], e["to"]
            if to in ("int", "long"):
                if frm == "float":
                    return cast_float_to_int(v, to)
                r = int(v)
                if to == "int" and not (INT_MIN <= r <= INT_MAX):
                    raise Undocumented("narrowing long->int out of range")
                return r
            if to == "float":
                return float(v)
            if to == "bit":
                if frm == "float" and near_tie(v, 0.0):
                    raise Undocumented("bit cast of tiny float")
                return 1 if v != 0 else 0
            raise Undocumented("cast to " + to)
        if k == "post":
            slot = self.lookup(env, e["name"])
            old = slot[1]
            slot[1] = fit("int", old + (1 if e["op"] == "++" else -1))
            return old
        if k == "assign":
            slot = self.lookup(env, e["name"])
            slot[1] = self.init_value(slot[0], e["e"], env)
            v = slot[1]
            return list(v) if isinstance(v, list) else v
        if k == "idx":
            arr = self.lookup(env, e["name"])[1]
            i = self.eval(e["i"], env)
            if not (0 <= i < len(arr)):
                raise BlochRuntimeError("out of bounds")
            return arr[i]
        if k == "call":
            f = self.funcs[e["f"]]
            args = []
            for (pt, _), a in zip(f["params"], e["args"]):
                args.append(self.init_value(pt, a, env))
            rv = self.call(f, args)
            if f["ret"] == "void":
                return None
            if rv is None:
                raise Undocumented("missing return")
            return rv
        if k == "bin":
            return self.binop(e, env)
        raise ValueError(k)

    def binop(self, e, env):
        op = e["op"]
        lt, rt, t = e["l"]["t"], e["r"]["t"], e["t"]
        l = self.eval(e["l"], env)
        r = self.eval(e["r"], env)
        if op in ("&&", "||"):
            return (bool(l) and bool(r)) if op == "&&" else (bool(l) or bool(r))
        if op in ("&", "|", "^"):
            f = {"&": lambda a, b: a & b, "|": lambda a, b: a | b, "^": lambda a, b: a ^ b}[op]
            if t == "bit[]":
                if len(l) != len(r):
                    raise Undocumented("bit[] length mismatch")
                return [f(int(a), int(b)) for a, b in zip(l, r)]
            return f(int(l), int(r))
        if op == "+" and t == "string":
            res = to_string(lt, l) + to_string(rt, r)
            if len(res) > 4000:
                raise Undocumented("string grows without bound")
            return res
        if op in ("==", "!="):
            if lt in ("string", "boolean", "bit") or rt in ("string", "boolean", "bit"):
                res = l == r
            else:
                if "float" in (lt, rt) and near_tie(float(l), float(r)):
                    raise Undocumented("float near-tie")
                res = l == r
            return res if op == "==" else not res
        if op in ("<", ">", "<=", ">="):
            if "float" in (lt, rt) and near_tie(float(l), float(r)):
                raise Undocumented("float near-tie")
            return {"<": l < r, ">": l > r, "<=": l <= r, ">=": l >= r}[op]
        if op == "/":
            if r == 0:
                if rt == "float":
                    raise Undocumented("float zero divisor")
                raise BlochRuntimeError("division by zero")
            return float(l) / float(r)
        if op == "%":
            if r == 0:
                raise BlochRuntimeError("modulo by zero")
            if l < 0 or r < 0:
                raise Undocumented("% with negative operand")
            return fit(t, l % r)
        if t == "float":
            l, r = float(l), float(r)
            res = {"+": l + r, "-": l - r, "*": l * r}[op]
            if not math.isfinite(res):
                raise Undocumented("float overflow")
            return res
        return fit(t, {"+": l + r, "-": l - r, "*": l * r}[op])


def const_int(e, finals):
    """Compile-time integer constant folding as any front end might do it (literals, final ints with constant
    initialisers, unary minus, int casts, + - * / %).  Returns None when not constant."""
    k = e["k"]
    if k == "lit":
        return e["v"] if e["t"] == "int" else None
    if k == "var":
        return finals.get(e["name"])
    if k == "un" and e["op"] == "-":
        v = const_int(e["e"], finals)
        return None if v is None else -v
    if k == "cast" and e["to"] == "int":
        return const_int(e["e"], finals)
    if k == "bin" and e["op"] in ("+", "-", "*", "/", "%"):
        a, b = const_int(e["l"], finals), const_int(e["r"], finals)
        if a is None or b is None:
            return None
        if e["op"] == "+":
            return a + b
        if e["op"] == "-":
            return a - b
        if e["op"] == "*":
            return a * b
        if b == 0:
            return 0
        return int(a / b) if e["op"] == "/" else a - b * int(a / b)
    return None


def static_undocumented(prog):
    """Division or modulo whose divisor is a compile-time constant zero: whether that is diagnosed at compile
    time or at run time is not documented -> discard."""
    from . import genprog
    bad = []
    for f in prog["funcs"]:
        finals = {}

        def fs(s):
            if s["k"] == "decl" and s.get("final") and s["t"] == "int" and s.get("init") is not None:
                v = const_int(s["init"], finals)
                if v is not None:
                    finals[s["name"]] = v

        def fe(e):
            if e["k"] == "bin" and e["op"] in ("/", "%"):
                if const_int(e["r"], finals) == 0:
                    bad.append(1)

        genprog.walk_stmts(f["body"], fs, fe)
    return bool(bad)


def run_reference(prog):
    if static_undocumented(prog):
        raise Undocumented("constant zero divisor")
    it = Interp(prog)
    return it.run()
