"""`classes` profile: hierarchies, fields with tracing initialisers, constructors with explicit / implicit super and
`= default`, virtual / override / plain / static methods, overload sets over primitives and references, static fields,
a generic Box<T>, destructors with traces, free functions taking objects, and a main that performs a generated sequence of
constructions, calls, field updates, aliasing, destroys and scope exits.

Builds on pbt/genprog.py (same JSON-able tree format, extended):
 expressions  new(cls,args,ctor)  this  fld(obj,name)  sfld(cls,name)  mcall(obj|None|"super", name, args, owner, static)  null
 statements   fset(obj,name,e)  sfset(cls,name,e)  destroy(name)
 classes      {"name","base","tparam","fields":[..],"ctors":[..],"methods":[..],"dtor":{..}|None,"static":bool}
"""
from hypothesis import strategies as st

from . import genprog
from .genprog import Scope, fresh_name, gen_block, gen_expr, lit, rexpr, rstmt, rtype

CLASS_NAMES = ["A", "B", "C", "D", "E"]
FIELD_POOL = ["x", "y", "z", "w", "k", "n", "v", "acc", "val"]  # "oid" is reserved
PRIMS = ["int", "int", "long", "string", "boolean", "float"]
METHOD_NAMES = ["m", "f", "g", "calc", "step"]

TRACER = {"name": "T", "static": True, "base": None, "tparam": None,
          "fields": [{"name": "ticks", "t": "int", "static": True, "vis": "public", "init": lit("int", 0), "final": False}],
          "ctors": [], "dtor": None,
          "methods": [{"name": "tr", "params": [["string", "s"], ["int", "v"]], "ret": "int", "kind": "static", "vis": "public",
                       "body": [{"k": "echo", "e": {"k": "bin", "t": "string", "op": "+", "l": {"k": "var", "t": "string", "name": "s"},
                                                  "r": {"k": "var", "t": "int", "name": "v"}}},
                                {"k": "ret", "e": {"k": "var", "t": "int", "name": "v"}}]},
                      {"name": "next", "params": [], "ret": "int", "kind": "static", "vis": "public",
                       "body": [{"k": "assign", "name": "ticks", "e": {"k": "bin", "t": "int", "op": "+",
                                                                      "l": {"k": "var", "t": "int", "name": "ticks"}, "r": lit("int", 1)}},
                                {"k": "ret", "e": {"k": "var", "t": "int", "name": "ticks"}}]}]}

NEXT_ID = {"k": "mcall", "t": "int", "obj": None, "static": "T", "name": "next", "args": [], "owner": "T"}


def tr(label, e):
    """T.tr("label", e) - traces and returns e (usable in field initialisers)."""
    return {"k": "mcall", "t": "int", "obj": None, "static": "T", "name": "tr", "args": [lit("string", label), e], "owner": "T"}


# ------------------------------------------------------------------ rendering

def r_args(args):
    return ", ".join(rexpr(a) for a in args)


def _r_new(e, ctx):
    return f"new {e['cls']}({r_args(e['args'])})"


def _r_fld(e, ctx):
    return f"{rexpr(e['obj'], 11)}.{e['name']}"


def _r_mcall(e, ctx):
    if e.get("static"):
        return f"{e['static']}.{e['name']}({r_args(e['args'])})"
    if e["obj"] is None:
        return f"{e['name']}({r_args(e['args'])})"
    if e["obj"] == "super":
        return f"super.{e['name']}({r_args(e['args'])})"
    return f"{rexpr(e['obj'], 11)}.{e['name']}({r_args(e['args'])})"


genprog.EXTRA_RENDER.update({
    "new": _r_new,
    "this": lambda e, ctx: "this",
    "null": lambda e, ctx: "null",
    "fld": _r_fld,
    "sfld": lambda e, ctx: f"{e['cls']}.{e['name']}",
    "mcall": _r_mcall,
})


def _s_fset(s, ind, out):
    out.append("    " * ind + f"{rexpr(s['obj'], 11)}.{s['name']} = {rexpr(s['e'])};")


genprog.EXTRA_STMT_RENDER.update({
    "fset": _s_fset,
    "sfset": lambda s, ind, out: out.append("    " * ind + f"{s['cls']}.{s['name']} = {rexpr(s['e'])};"),
    "destroy": lambda s, ind, out: out.append("    " * ind + f"destroy {s['name']};"),
})


def render_class(c):
    out = []
    head = ("static " if c.get("static") else "") + f"class {c['name']}" + (f"<{c['tparam']}>" if c.get("tparam") else "")
    if c.get("base"):
        head += f" extends {c['base']}"
    out.append(head + " {")
    self_t = c["name"] + (f"<{c['tparam']}>" if c.get("tparam") else "")
    for f in c["fields"]:
        init = f" = {rexpr(f['init'])}" if f.get("init") is not None else ""
        out.append(f"    {f.get('vis', 'public')} {'static ' if f.get('static') else ''}{'final ' if f.get('final') else ''}"
                   f"{f['t']} {f['name']}{init};")
    for ct in c["ctors"]:
        ps = ", ".join(f"{t} {n}" for t, n in ct["params"])
        if ct.get("default"):
            out.append(f"    {ct.get('vis', 'public')} constructor({ps}) -> {self_t} = default;")
            continue
        out.append(f"    {ct.get('vis', 'public')} constructor({ps}) -> {self_t} {{")
        if ct.get("super_args") is not None:
            out.append(f"        super({r_args(ct['super_args'])});")
        for s in ct["body"]:
            rstmt(s, 2, out)
        if ct.get("ret_this"):
            out.append("        return this;")
        out.append("    }")
    for m in c["methods"]:
        ps = ", ".join(f"{t} {n}" for t, n in m["params"])
        mod = {"virtual": "virtual ", "override": "override ", "plain": "", "static": "static "}[m["kind"]]
        out.append(f"    {m.get('vis', 'public')} {mod}function {m['name']}({ps}) -> {m['ret']} {{")
        for s in m["body"]:
            rstmt(s, 2, out)
        out.append("    }")
    if c.get("dtor") is not None:
        out.append("    public destructor() -> void {")
        for s in c["dtor"]["body"]:
            rstmt(s, 2, out)
        out.append("    }")
    out.append("}")
    return "\n".join(out)


def render(p, order=None):
    decls = [render_class(c) for c in p["classes"]] + [genprog.render_function(f) for f in p["funcs"]]
    if order is not None:
        decls = [decls[i] for i in order]
    return "\n\n".join(decls) + "\n"


# ------------------------------------------------------------------ helpers over the class table

def ancestors(classes, name):
    """name, base, base of base, ... (only user classes)."""
    by = {c["name"]: c for c in classes}
    out = []
    while name and name in by:
        out.append(by[name])
        name = by[name].get("base")
    return out


def is_subclass(classes, d, b):
    return any(c["name"] == b for c in ancestors(classes, d))


def visible_fields(classes, name, static=False):
    fs = []
    for c in reversed(ancestors(classes, name)):
        fs += [f for f in c["fields"] if bool(f.get("static")) == static]
    return fs


def methods_of(classes, name):
    """Visible methods (nearest definition of each signature wins)."""
    seen = {}
    for c in ancestors(classes, name):
        for m in c["methods"]:
            sig = (m["name"], tuple(t for t, _ in m["params"]))
            seen.setdefault(sig, (c["name"], m))
    return list(seen.values())


def class_types(classes):
    return [c["name"] for c in classes if not c.get("static") and not c.get("tparam")]


# ------------------------------------------------------------------ generation

class CScope(Scope):
    def __init__(self, prog, funcs, this_class=None, static_ctx=False):
        super().__init__(funcs, [], False, 2)
        self.prog = prog
        self.this_class = this_class
        self.static_ctx = static_ctx
        self.pure_expr_only = False
        self.decl_types = ["int", "int", "long", "string", "boolean", "float"]
        self.objs = []  # object variables in scope: {name, t (static class), dtor: bool}
        self.extra_weight = 3
        self.in_ctor = False
        self.label = "?"
        self.allow_alloc = True
        # a local must not be named like a method or function (a bare call would then name the variable)
        self.used |= set(METHOD_NAMES) | {"use", "show", "main", "oid"}

    # expressions of primitive type t that involve objects
    def extra_exprs(self, t):
        out = []
        classes = self.prog["classes"]
        for o in self.objs:
            for f in visible_fields(classes, o["t"]):
                if f["t"] == t and f.get("vis", "public") == "public":
                    out.append(lambda draw, d, o=o, f=f: {"k": "fld", "t": t, "obj": {"k": "var", "t": o["t"], "name": o["name"]}, "name": f["name"]})
            for owner, m in methods_of(classes, o["t"]):
                if m["ret"] == t and m["kind"] != "static" and not self.pure_expr_only and m.get("rank", 0) < getattr(self, "rank", 99):
                    out.append(lambda draw, d, o=o, m=m, owner=owner: self.mk_call(draw, d, {"k": "var", "t": o["t"], "name": o["name"]}, o["t"], m, owner))
        for c in classes:
            if c.get("static") or c.get("tparam"):
                continue
            for f in c["fields"]:
                if f.get("static") and f["t"] == t:
                    out.append(lambda draw, d, c=c, f=f: {"k": "sfld", "t": t, "cls": c["name"], "name": f["name"]})
        if self.this_class and not self.static_ctx:
            for owner, m in methods_of(classes, self.this_class):
                if m["ret"] == t and m["kind"] != "static" and not self.pure_expr_only and m.get("rank", 0) < getattr(self, "rank", 99):
                    out.append(lambda draw, d, m=m, owner=owner: self.mk_call(draw, d, draw(st.sampled_from([None, {"k": "this", "t": self.this_class}])),
                                                                              self.this_class, m, owner))
        return out

    def mk_call(self, draw, d, obj, static_cls, m, owner):
        self.pure_expr_only = True  # the call traces: at most one such side effect per expression (evaluation order is undocumented)
        # `null` fits every reference overload: with sibling overloads over reference types only real objects are passed
        sibl = m["name"] == "pick"
        crowded = any(mm is not m and mm["name"] == m["name"] and len(mm["params"]) == len(m["params"])
                      for _, mm in methods_of(self.prog["classes"], static_cls))
        args = [draw(gen_expr(self, pt if not (pt == "long" and draw(st.booleans())) else "int", min(d, 1), False, False))
                if pt in genprog.SCALARS else self.obj_arg(draw, pt, allow_null=not (sibl or crowded)) for pt, _ in m["params"]]
        if any(a["k"] == "null" for a in args) and (sibl or crowded):
            return draw(genprog.gen_lit(m["ret"])) if m["ret"] in genprog.SCALARS else lit("int", 0)
        if sibl:
            # the overload is resolved from the STATIC type of the argument: most specific applicable parameter type
            st_t = args[0]["t"]
            cands = [mm for _, mm in methods_of(self.prog["classes"], static_cls) if mm["name"] == "pick"
                     and is_subclass(self.prog["classes"], st_t, mm["params"][0][0])]
            m = min(cands, key=lambda mm: len(ancestors(self.prog["classes"], st_t)) - len(ancestors(self.prog["classes"], mm["params"][0][0])))
        return {"k": "mcall", "t": m["ret"], "obj": obj, "name": m["name"], "args": args, "owner": owner, "recv": static_cls,
                "sig": [pt for pt, _ in m["params"]]}

    def obj_arg(self, draw, pt, allow_null=True):
        cands = [o for o in self.objs if is_subclass(self.prog["classes"], o["t"], pt)]
        if cands and (not allow_null or draw(st.integers(0, 5)) > 0):
            o = draw(st.sampled_from(cands))
            return {"k": "var", "t": o["t"], "name": o["name"]}
        return {"k": "null", "t": pt}

    def extra_stmts(self):
        out = []
        classes = self.prog["classes"]
        if self.allow_alloc and not getattr(self, "in_loop", False):
            out.append(self.s_new)
            out.append(self.s_new)
        if self.objs:
            out += [self.s_callstmt, self.s_callstmt, self.s_fieldset, self.s_echo_member]
            if self.allow_alloc and not getattr(self, "in_loop", False):
                out += [self.s_alias, self.s_destroy]
        if any(f.get("static") for c in classes for f in c["fields"] if not c.get("static")):
            out.append(self.s_staticset)
        if getattr(self, "free_funcs", None) and not getattr(self, "in_loop", False):
            out += [self.s_fcall, self.s_fcall]
        return out

    def s_fcall(self, draw, depth):
        f = draw(st.sampled_from(self.free_funcs))
        args = []
        for pt, _ in f["params"]:
            if pt in genprog.SCALARS:
                args.append(lit("int", draw(st.integers(0, 2))) if f["name"] == "scoped" else draw(gen_expr(self, pt, 1, False, True)))
            else:
                a = self.obj_arg(draw, pt, allow_null=False)
                if a["k"] == "null":
                    return {"k": "echo", "e": lit("int", 3)}
                args.append(a)
        return {"k": "echo", "e": {"k": "call", "t": f["ret"], "f": f["name"], "args": args}}

    def s_new(self, draw, depth):
        cls = draw(st.sampled_from(class_types(self.prog["classes"])))
        decl_t = draw(st.sampled_from([c["name"] for c in ancestors(self.prog["classes"], cls)]))
        name = fresh_name(draw, self, ["a", "b", "c", "d", "p", "q", "r", "obj", "it", "cur"])
        e = self.new_expr(draw, cls)
        self.objs.append({"name": name, "t": decl_t, "dyn": cls})
        self.vars.append({"name": name, "t": decl_t, "ro": True, "obj": True})
        decl = {"k": "decl", "t": decl_t, "name": name, "init": e}
        if draw(st.booleans()):
            # observe the freshly constructed object completely: every visible scalar field (construction order, initialiser
            # and constructor effects become visible whether or not later code happens to read the field)
            fs = [f for f in visible_fields(self.prog["classes"], decl_t) if f.get("vis", "public") == "public" and f["t"] in genprog.SCALARS]
            dump = [{"k": "echo", "e": {"k": "fld", "t": f["t"], "obj": {"k": "var", "t": decl_t, "name": name}, "name": f["name"]}} for f in fs]
            return {"k": "seq", "body": [decl] + dump}
        return decl

    def new_expr(self, draw, cls):
        c = next(x for x in self.prog["classes"] if x["name"] == cls)
        ci = draw(st.integers(0, len(c["ctors"]) - 1))
        ct = c["ctors"][ci]
        args = [draw(gen_expr(self, pt if not (pt == "long" and draw(st.booleans())) else "int", 1, False, False))
                if pt in genprog.SCALARS else self.obj_arg(draw, pt) for pt, _ in ct["params"]]
        return {"k": "new", "t": cls, "cls": cls, "args": args, "ctor": ci}

    def s_callstmt(self, draw, depth):
        o = draw(st.sampled_from(self.objs))
        # inside a method only methods of lower rank may be called (acyclic call graph under dynamic dispatch: termination)
        ms = [(owner, m) for owner, m in methods_of(self.prog["classes"], o["t"]) if m["kind"] != "static"
              and m.get("rank", 0) < getattr(self, "rank", 99)]
        if not ms:
            return {"k": "echo", "e": lit("int", 0)}
        owner, m = draw(st.sampled_from(ms))
        call = self.mk_call(draw, 1, {"k": "var", "t": o["t"], "name": o["name"]}, o["t"], m, owner)
        if m["ret"] == "void":
            return {"k": "expr", "e": call}
        return {"k": "echo", "e": call}

    def s_fieldset(self, draw, depth):
        o = draw(st.sampled_from(self.objs))
        fs = [f for f in visible_fields(self.prog["classes"], o["t"]) if f.get("vis", "public") == "public" and not f.get("final")
              and f["t"] in genprog.SCALARS]
        if not fs:
            return {"k": "echo", "e": lit("int", 1)}
        f = draw(st.sampled_from(fs))
        return {"k": "fset", "obj": {"k": "var", "t": o["t"], "name": o["name"]}, "name": f["name"], "e": draw(gen_expr(self, f["t"], 2))}

    def s_echo_member(self, draw, depth):
        o = draw(st.sampled_from(self.objs))
        fs = [f for f in visible_fields(self.prog["classes"], o["t"]) if f.get("vis", "public") == "public" and f["t"] in genprog.SCALARS]
        if not fs:
            return {"k": "echo", "e": lit("int", 2)}
        f = draw(st.sampled_from(fs))
        return {"k": "echo", "e": {"k": "fld", "t": f["t"], "obj": {"k": "var", "t": o["t"], "name": o["name"]}, "name": f["name"]}}

    def s_staticset(self, draw, depth):
        cands = [(c, f) for c in self.prog["classes"] if not c.get("static") for f in c["fields"] if f.get("static")]
        c, f = draw(st.sampled_from(cands))
        # reachable through a derived class name as well
        names = [x["name"] for x in self.prog["classes"] if is_subclass(self.prog["classes"], x["name"], c["name"])]
        via = draw(st.sampled_from(names))
        return {"k": "sfset", "cls": via, "name": f["name"], "e": draw(gen_expr(self, f["t"], 2))}

    def s_alias(self, draw, depth):
        o = draw(st.sampled_from(self.objs))
        name = fresh_name(draw, self, ["a", "b", "c", "d", "p", "q", "r", "obj", "it", "cur"])
        self.objs.append({"name": name, "t": o["t"], "dyn": o.get("dyn")})
        self.vars.append({"name": name, "t": o["t"], "ro": True, "obj": True})
        return {"k": "decl", "t": o["t"], "name": name, "init": {"k": "var", "t": o["t"], "name": o["name"]}}

    def s_destroy(self, draw, depth):
        o = draw(st.sampled_from(self.objs))
        self.objs = [x for x in self.objs if x["name"] != o["name"]]  # the variable is null afterwards: no further use
        return {"k": "destroy", "name": o["name"]}

    def on_scope_exit(self, mark):
        names = {v["name"] for v in self.vars}
        self.objs = [o for o in self.objs if o["name"] in names]


@st.composite
def gen_method_body(draw, prog, funcs, cname, params, ret, label, rank, static_ctx=False, n=(0, 3), echo=True):
    sc = CScope(prog, funcs, cname, static_ctx)
    sc.rank = rank
    sc.allow_alloc = False
    sc.extra_weight = 1
    for pt, pn in params:
        sc.used.add(pn)
        if pt in genprog.SCALARS:
            sc.vars.append({"name": pn, "t": pt, "ro": False})
        else:
            sc.objs.append({"name": pn, "t": pt})
            sc.vars.append({"name": pn, "t": pt, "ro": True, "obj": True})
    if not static_ctx:
        for f in visible_fields(prog["classes"], cname):
            sc.used.add(f["name"])
            if f["t"] in genprog.SCALARS:
                sc.vars.append({"name": f["name"], "t": f["t"], "ro": bool(f.get("final")), "field": True})
    for f in visible_fields(prog["classes"], cname, static=True):
        sc.used.add(f["name"])
        if f["t"] in genprog.SCALARS:
            sc.vars.append({"name": f["name"], "t": f["t"], "ro": False, "field": True, "static": True})
    body = [{"k": "expr", "e": tr(label, draw(gen_expr(sc, "int", 1, False, True)))}] if echo else []
    body += draw(gen_block(sc, draw(st.integers(*n)), 1, ret, False, echo))
    # gen_block dropped its locals: the return expression only uses parameters and fields
    if ret != "void":
        body.append({"k": "ret", "e": draw(gen_expr(sc, "int" if (ret == "long" and draw(st.booleans())) else ret, 2))})
    return body


@st.composite
def class_program(draw, max_classes=4, dtors=True, generic=True):
    prog = {"classes": [TRACER], "funcs": []}
    ncls = draw(st.integers(1, max_classes))
    used_fields = set()
    rank = 0
    for ci in range(ncls):
        name = CLASS_NAMES[ci]
        bases = [c["name"] for c in prog["classes"] if not c.get("static")]
        base = draw(st.sampled_from(bases + bases + [None])) if bases else None
        cls = {"name": name, "base": base, "tparam": None, "fields": [], "ctors": [], "methods": [], "dtor": None}
        if base is None:
            # every object gets a unique id (allocation order) so that destructor traces identify their object
            cls["fields"].append({"name": "oid", "t": "int", "static": False, "vis": "public", "init": NEXT_ID, "final": True})
        prog["classes"].append(cls)
        inherited = {f["name"] for f in visible_fields(prog["classes"], name)} | {f["name"] for f in visible_fields(prog["classes"], name, True)}
        # fields (initialisers trace; they may read earlier fields of the same object)
        for _ in range(draw(st.integers(1, 3))):
            free = [n for n in FIELD_POOL if n not in inherited and n not in {f["name"] for f in cls["fields"]}]
            if not free:
                break
            fname = draw(st.sampled_from(free))
            ft = draw(st.sampled_from(PRIMS))
            static = draw(st.integers(0, 4)) == 0
            init = None
            if static or draw(st.integers(0, 3)) > 0:
                v = draw(genprog.gen_lit(ft, small=True))
                init = tr(f"{name}.{fname}=", v) if (ft == "int" and not static and draw(st.booleans())) else v
                # an initialiser may read an earlier instance field of the same object (own or inherited; its value is fixed
                # by the documented order base ctor -> own initialisers in declaration order), by bare name or through this
                earlier = [g for g in visible_fields(prog["classes"], name) if not g.get("static") and g["t"] == ft
                           and g.get("vis", "public") == "public" and g.get("init") is not None]
                if not static and earlier and draw(st.integers(0, 2)) == 0:
                    named = [g for g in earlier if g["name"] != "oid"]
                    g = draw(st.sampled_from(named if (named and draw(st.integers(0, 3)) > 0) else earlier))
                    ref = {"k": "var", "t": ft, "name": g["name"], "via_this": draw(st.booleans())}
                    if ft in ("int", "long", "float") and draw(st.booleans()):
                        ref = {"k": "bin", "t": ft, "op": draw(st.sampled_from(["+", "-"])), "l": ref, "r": draw(genprog.gen_lit(ft, small=True))}
                    init = tr(f"{name}.{fname}=", ref) if (ft == "int" and draw(st.booleans())) else ref
            cls["fields"].append({"name": fname, "t": ft, "static": static, "vis": "public", "init": init, "final": False})
        # constructors: every instance field without initialiser is assigned in every constructor
        nct = draw(st.integers(1, 2))
        sigs = set()
        for k in range(nct):
            nparam = draw(st.integers(0, 2))
            params = []
            for _ in range(nparam):
                pt = draw(st.sampled_from(["int", "int", "long", "string", "float"]))
                # a constructor parameter may carry the name of a field of its class (the `this.x = x` idiom): inside the
                # constructor the bare name is the parameter, everywhere else (field initialisers!) it is the field
                shadow = [f["name"] for f in cls["fields"] if not f["static"] and f["name"] != "oid"] if draw(st.integers(0, 2)) == 0 else []
                bare_read = sorted({n for f in cls["fields"] if not f["static"] and f.get("init") for n in _bare_vars(f["init"])} - {"oid"})
                if bare_read and draw(st.booleans()):
                    shadow = bare_read
                pn = draw(st.sampled_from([n for n in (shadow or ["a0", "b0", "c0", "s0", "t0"]) + ["a0", "b0", "c0", "s0", "t0"]
                                           if n not in [p[1] for p in params]]))
                params.append([pt, pn])
            sig = tuple(p[0] for p in params)
            if sig in sigs or any(_confusable(sig, s2) for s2 in sigs):
                continue
            sigs.add(sig)
            ct = {"params": params, "body": [], "super_args": None, "default": False, "ret_this": draw(st.booleans()), "vis": "public"}
            sc = CScope(prog, [], name)
            sc.allow_alloc = False
            for pt, pn in params:
                sc.used.add(pn)
                sc.vars.append({"name": pn, "t": pt, "ro": False})
            if base:
                bc = next(c for c in prog["classes"] if c["name"] == base)
                bi = draw(st.integers(0, len(bc["ctors"]) - 1))
                bct = bc["ctors"][bi]
                if bct["params"] or draw(st.booleans()):
                    ct["super_args"] = [draw(gen_expr(sc, pt if not (pt == "long" and draw(st.booleans())) else "int", 1, False, True))
                                        for pt, _ in bct["params"]]
                    ct["super_ctor"] = bi
                else:
                    ct["super_ctor"] = next(i for i, x in enumerate(bc["ctors"]) if not x["params"]) if any(
                        not x["params"] for x in bc["ctors"]) else None
                    if ct["super_ctor"] is None:
                        ct["super_args"] = [draw(gen_expr(sc, pt, 1, False, True)) for pt, _ in bc["ctors"][0]["params"]]
                        ct["super_ctor"] = 0
            ct["body"].append({"k": "expr", "e": tr(f"{name}.ctor{k}:", lit("int", len(params)))})
            for f in cls["fields"]:
                if not f["static"] and f["init"] is None:
                    ct["body"].append({"k": "fset", "obj": {"k": "this", "t": name}, "name": f["name"], "e": draw(gen_expr(sc, f["t"], 1, False, True))})
            cls["ctors"].append(ct)
        # methods: override some inherited virtuals, add new ones (virtual / plain), overload sets
        inh = [(o, m) for o, m in methods_of(prog["classes"], name) if o != name]
        for owner, m in inh:
            # only a method whose nearest definition is marked `virtual` can be overridden (an `override` is not itself
            # virtual in this language: the analyser rejects overriding it again)
            if m["kind"] == "virtual" and draw(st.booleans()):
                # an override inherits the rank of the virtual it replaces: it may only call methods a caller of the virtual
                # could already not be called from, so the call graph stays acyclic under dynamic dispatch (termination)
                orank = m.get("rank", 0)
                body = draw(gen_method_body(prog, [], name, m["params"], m["ret"], f"{name}.{m['name']}:", orank))
                if draw(st.booleans()) and m["ret"] == "int":
                    # call the base version
                    sup = {"k": "mcall", "t": "int", "obj": "super", "name": m["name"], "owner": owner, "recv": base,
                           "sig": [pt for pt, _ in m["params"]],
                           "args": [{"k": "var", "t": pt, "name": pn} for pt, pn in m["params"]]}
                    body.insert(1, {"k": "expr", "e": tr(f"{name}.super.{m['name']}=", sup)})
                cls["methods"].append({"name": m["name"], "params": [list(p) for p in m["params"]], "ret": m["ret"], "kind": "override",
                                       "vis": "public", "body": body, "pure": False, "rank": orank})
        for _ in range(draw(st.integers(0, 3))):
            mname = draw(st.sampled_from(METHOD_NAMES))
            nparam = draw(st.integers(0, 2))
            ptypes = [draw(st.sampled_from(["int", "long", "float", "string", "boolean"] + class_types(prog["classes"]))) for _ in range(nparam)]
            existing = [tuple(t for t, _ in mm["params"]) for _, mm in methods_of(prog["classes"], name) if mm["name"] == mname]
            if tuple(ptypes) in existing or any(_confusable(tuple(ptypes), s2) for s2 in existing):
                continue
            params = [[t, f"p{i}"] for i, t in enumerate(ptypes)]
            ret = draw(st.sampled_from(["int", "int", "string", "void", "long"]))
            kind = draw(st.sampled_from(["virtual", "virtual", "plain"]))
            rank += 1
            body = draw(gen_method_body(prog, [], name, params, ret, f"{name}.{mname}({','.join(ptypes)}):", rank))
            cls["methods"].append({"name": mname, "params": params, "ret": ret, "kind": kind, "vis": "public", "body": body,
                                   "pure": False, "rank": rank})
        if dtors and draw(st.integers(0, 2)) == 0:
            cls["dtor"] = {"body": [{"k": "expr", "e": tr(f"~{name}#", {"k": "var", "t": "int", "name": "oid", "via_this": True})}]}
    # overload sets over related reference types: the overload that runs is the one chosen from the STATIC argument type
    cts = class_types(prog["classes"])
    related = [(d, b) for d in cts for b in cts if d != b and is_subclass(prog["classes"], d, b)]
    if related and draw(st.booleans()):
        d, b = draw(st.sampled_from(related))
        sel = {"name": "Sel", "base": None, "tparam": None, "dtor": None,
               "fields": [{"name": "oid", "t": "int", "static": False, "vis": "public", "init": NEXT_ID, "final": True}],
               "ctors": [{"params": [], "body": [], "super_args": None, "default": False, "ret_this": False, "vis": "public"}],
               "methods": []}
        for k, pt in enumerate([b, d]):
            sel["methods"].append({"name": "pick", "params": [[pt, "o"]], "ret": "int", "kind": draw(st.sampled_from(["plain", "virtual"])),
                                   "vis": "public", "pure": False, "rank": 0,
                                   "body": [{"k": "expr", "e": tr(f"Sel.pick({pt}):", lit("int", k))}, {"k": "ret", "e": lit("int", k)}]})
        prog["classes"].append(sel)
    # free functions taking objects
    for fi in range(draw(st.integers(0, 2))):
        fname = ["use", "show"][fi]
        ct = draw(st.sampled_from(class_types(prog["classes"])))
        params = [[ct, "o"], ["int", draw(st.sampled_from(FIELD_POOL))]]
        sc = CScope(prog, [], None)
        sc.allow_alloc = False
        sc.extra_weight = 2
        sc.objs.append({"name": "o", "t": ct})
        sc.used |= {"o", params[1][1]}
        sc.vars += [{"name": "o", "t": ct, "ro": True, "obj": True}, {"name": params[1][1], "t": "int", "ro": False}]
        body = draw(gen_block(sc, draw(st.integers(1, 3)), 1, "int", False, True))
        body.append({"k": "ret", "e": draw(gen_expr(sc, "int", 2))})
        prog["funcs"].append({"name": fname, "params": params, "ret": "int", "body": body, "pure": False})
    # a free function that returns from inside a nested block holding a fresh object: the object's destructor runs while the
    # return value is pending
    scoped = None
    if dtors and draw(st.booleans()):
        sc = CScope(prog, [], None)
        sc.extra_weight = 2
        sc.used |= {"sel"}
        sc.vars.append({"name": "sel", "t": "int", "ro": True})
        stmts = []
        for i in range(draw(st.integers(1, 2))):
            snap_v, snap_o = list(sc.vars), list(sc.objs)
            first = sc.s_new(draw, 1)
            inner = first["body"] if first["k"] == "seq" else [first]
            if draw(st.booleans()):
                inner.append(sc.s_callstmt(draw, 1))
            sc.pure_expr_only = False
            inner.append({"k": "ret", "e": draw(gen_expr(sc, "int", 2))})
            sc.vars[:], sc.objs[:] = snap_v, snap_o
            if i == 0:
                stmts.append({"k": "if", "c": {"k": "bin", "t": "boolean", "op": "<", "l": {"k": "var", "t": "int", "name": "sel"},
                                               "r": lit("int", 1)}, "then": inner, "else": None})
            else:
                stmts.append({"k": "block", "body": inner})
        stmts.append({"k": "ret", "e": lit("int", 77)})
        scoped = {"name": "scoped", "params": [["int", "sel"]], "ret": "int", "body": stmts, "pure": False}
        prog["funcs"].append(scoped)
    # main
    sc = CScope(prog, [], None)
    sc.extra_weight = 8
    sc.funcs = []
    sc.free_funcs = [f for f in prog["funcs"]]
    body = draw(gen_block(sc, draw(st.integers(4, 12)), 2, "void", False, True))
    prog["funcs"].append({"name": "main", "params": [], "ret": "void", "body": body, "pure": False})
    for c in prog["classes"]:
        c["uses"] = sorted(_class_uses(c))
    return prog


def _bare_vars(e):
    """Names read by bare identifier inside an expression tree."""
    out = set()
    if isinstance(e, dict):
        if e.get("k") == "var" and not e.get("via_this"):
            out.add(e["name"])
        for v in e.values():
            out |= _bare_vars(v)
    elif isinstance(e, list):
        for v in e:
            out |= _bare_vars(v)
    return out


def _confusable(a, b):
    """Overloads whose parameter lists could both accept the same call through widening / subclassing are kept apart:
    only calls with a unique parameter-wise most specific candidate are meaningful (DESIGN.md C08)."""
    if len(a) != len(b):
        return False
    rel = {"int", "long"}
    for x, y in zip(a, b):
        if x == y:
            continue
        if {x, y} <= rel:
            continue
        if x not in genprog.SCALARS and y not in genprog.SCALARS:
            continue  # two reference parameters: `null` (and, for related classes, one object) fits both
        return False
    return True


def _class_uses(c):
    uses = set()

    def fe(e):
        if e["k"] == "new":
            uses.add(e["cls"])
        if e["k"] == "mcall" and e.get("static"):
            uses.add(e["static"])
        if e["k"] == "sfld":
            uses.add(e["cls"])

    def fs(s):
        if s["k"] == "sfset":
            uses.add(s["cls"])

    for f in c["fields"]:
        if f.get("init") is not None:
            genprog.walk_exprs(f["init"], fe)
    for ct in c["ctors"]:
        genprog.walk_stmts(ct["body"], fs, fe)
        for a in ct.get("super_args") or []:
            genprog.walk_exprs(a, fe)
    for m in c["methods"]:
        genprog.walk_stmts(m["body"], fs, fe)
        for t, _ in m["params"]:
            if t not in genprog.SCALARS:
                uses.add(t)
    if c.get("dtor"):
        genprog.walk_stmts(c["dtor"]["body"], fs, fe)
    uses.discard(c["name"])
    return uses
