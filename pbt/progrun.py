"""Running Bloch programs through the driver and comparing outputs."""
import os
import re

from .common import run_proc

NUM_RE = re.compile(r"[-+]?(?:\d+\.\d*|\.\d+|\d+)(?:[eE][-+]?\d+)?|[-+]?(?:inf|nan)")
DIAG_RE = re.compile(r"^(Lexical|Parse|Semantic|Runtime) error(?: at Ln (\d+), Col (\d+))?: (.*)$")
ANSI_RE = re.compile(r"\x1b\[[0-9;]*m")


def strip_ansi(s):
    return ANSI_RE.sub("", s)


def split_tokens(line):
    """Split an output line into text and numeric tokens."""
    out = []
    pos = 0
    for m in NUM_RE.finditer(line):
        if m.start() > pos:
            out.append(("t", line[pos:m.start()]))
        out.append(("n", m.group(0)))
        pos = m.end()
    if pos < len(line):
        out.append(("t", line[pos:]))
    return out


def lines_equal(a, b, rel=1e-5):
    """Numeric tokens are compared as numbers (a change of print precision is not an alarm, a wrong value is)."""
    if a == b:
        return True
    ta, tb = split_tokens(a), split_tokens(b)
    # a leading sign may be glued to the text on one side ("x=-1" vs "x=" "-1"): normalise by joining
    if len(ta) != len(tb):
        return False
    for (ka, va), (kb, vb) in zip(ta, tb):
        if ka != kb:
            return False
        if ka == "t":
            if va != vb:
                return False
        else:
            try:
                fa, fb = float(va), float(vb)
            except ValueError:
                return False
            if fa != fb and not (abs(fa - fb) <= rel * max(abs(fa), abs(fb), 1e-30)):
                if not (fa != fa and fb != fb):
                    return False
    return True


def outputs_equal(la, lb):
    if len(la) != len(lb):
        return False
    return all(lines_equal(x, y) for x, y in zip(la, lb))


class CliResult:
    def __init__(self, proc, qasm_path=None):
        self.proc = proc
        self.rc = proc.rc
        self.stdout_lines = proc.out.splitlines()
        err = strip_ansi(proc.err)
        self.stderr_lines = [ln for ln in err.splitlines() if ln.strip()]
        self.diag = None
        for ln in self.stderr_lines:
            m = DIAG_RE.match(ln)
            if m:
                self.diag = {"cat": m.group(1), "line": int(m.group(2) or 0), "col": int(m.group(3) or 0), "msg": m.group(4)}
        self.qasm_path = qasm_path

    def error_kind(self):
        if not self.diag:
            return None
        m = self.diag["msg"]
        for k in ("division by zero", "modulo by zero", "out of bounds", "null reference", "already been measured"):
            if k in m:
                return k
        return m


def run_cli(drv, scratch, src, args=(), name="prog.bloch", env=None, timeout=20, files=None):
    """Runs the real CLI entry point on a copy of the program in the scratch dir (cwd = scratch dir)."""
    p = scratch.write(name, src if isinstance(src, bytes) else src.encode("latin-1"))
    for fn, data in (files or {}).items():
        scratch.write(fn, data)
    r = run_proc([drv, "cli"] + list(args) + [p], cwd=scratch.dir, env=env, timeout=timeout)
    return CliResult(r, qasm_path=os.path.splitext(p)[0] + ".qasm")


def run_api(drv, scratch, src, args=(), name="prog.bloch", env=None, timeout=20):
    p = scratch.write(name, src if isinstance(src, bytes) else src.encode("latin-1"))
    r = run_proc([drv, "run", p] + list(args), cwd=scratch.dir, env=env, timeout=timeout)
    return r


def run_front(drv, scratch, src, name="prog.bloch", direct=False, timeout=20):
    p = scratch.write(name, src if isinstance(src, bytes) else src.encode("latin-1"))
    r = run_proc([drv, "front"] + (["--direct"] if direct else []) + [p], cwd=scratch.dir, timeout=timeout)
    return r


DTOR_RE = re.compile(r"^~(\w+)#(\d+)$")


def canon_dtor_runs(lines):
    """Objects that die at the same program point (one scope exit) may be destroyed in any order: within a maximal run of
    consecutive destructor trace lines `~Class#oid` the per-object chains are kept intact and sorted by object id."""
    out = []
    run = []

    def flush():
        if run:
            groups = {}
            for ln, oid in run:
                groups.setdefault(oid, []).append(ln)
            for oid in sorted(groups):
                out.extend(groups[oid])
            run.clear()

    for ln in lines:
        m = DTOR_RE.match(ln)
        if m:
            run.append((ln, int(m.group(2))))
        else:
            flush()
            out.append(ln)
    flush()
    return out
