"""Syntax trees over the documented grammar (docs/grammar.md, syntax.md, bloch_class_system.md), a renderer that
uses the minimal parentheses required by the documented precedence/associativity (optionally adding redundant
ones and random trivia), and the S-expression the parser must produce (same format as `verifdrv parse`).

Trees are JSON-serialisable nested lists:  [kind, ...].
"""
import functools
import json
import re

from hypothesis import strategies as st

from .genprog import GATES, KEYWORDS

# binary levels, loosest first (docs/grammar.md): all left-associative
LEVELS = [["||"], ["&&"], ["|"], ["^"], ["&"], ["==", "!="], ["<", ">", "<=", ">="], ["+", "-"], ["*", "/", "%"]]
PREC = {op: i + 1 for i, ops in enumerate(LEVELS) for op in ops}
P_ASSIGN, P_PREFIX, P_POSTFIX = 0, 10, 11

IDENTS = ["a", "b", "c", "d", "n", "q", "r", "foo", "bar", "item", "val", "_t", "x1", "obj", "mk", "k2"]
IDENTS = [i for i in IDENTS if i not in KEYWORDS and i not in GATES]
TYPENAMES = ["Box", "Node", "Animal", "Pair", "T", "K"]
PRIMS = ["int", "long", "float", "bit", "boolean", "string", "char", "qubit"]
CAST_TARGETS = ["int", "long", "float", "bit", "char"]


class Discard(Exception):
    """The tree hits the one inherently ambiguous token shape (Ident < ... > Ident where a type could start)."""


# ------------------------------------------------------------------ types

@functools.lru_cache(maxsize=None)
def type_strategy(depth=2, allow_array=True, allow_void=False):
    prim = st.sampled_from(PRIMS).map(lambda p: ["prim", p])
    named0 = st.builds(lambda parts: ["named", parts, None], st.lists(st.sampled_from(TYPENAMES + ["pkg", "util"]), min_size=1, max_size=2))
    if depth <= 0:
        base = st.one_of(prim, named0)
    else:
        sub = type_strategy(depth - 1, allow_array=False)
        generic = st.builds(lambda n, args: ["named", [n], args], st.sampled_from(TYPENAMES[:4]), st.lists(sub, min_size=1, max_size=2))
        base = st.one_of(prim, prim, named0, generic)
    if allow_array:
        size = st.one_of(st.none(), st.integers(0, 9), st.sampled_from(["n", "k2"]))
        arr = st.builds(lambda b, s: ["array", b, s], base, size)
        base = st.one_of(base, base, arr)
    if allow_void:
        base = st.one_of(base, st.just(["void"]))
    return base


def type_tokens(t, diamond_ok=False):
    if t[0] == "prim":
        return [t[1]]
    if t[0] == "void":
        return ["void"]
    if t[0] == "named":
        toks = []
        for i, p in enumerate(t[1]):
            if i:
                toks.append(".")
            toks.append(p)
        if t[2] is not None:
            toks.append("<")
            for i, a in enumerate(t[2]):
                if i:
                    toks.append(",")
                toks += type_tokens(a)
            toks.append(">")
        return toks
    if t[0] == "array":
        toks = type_tokens(t[1]) + ["["]
        if t[2] is not None:
            toks.append(str(t[2]))
        return toks + ["]"]
    raise ValueError(t)


def type_sexpr(t):
    if t is None:
        return "_"
    if t[0] == "prim":
        return t[1]
    if t[0] == "void":
        return "void"
    if t[0] == "named":
        name = ".".join(t[1])
        if t[2] is None:
            return f"(named {name} [])"
        return f"(named {name} <{' '.join(type_sexpr(a) for a in t[2])}>)"
    if t[0] == "array":
        if t[2] is None:
            return f"(array {type_sexpr(t[1])} -1 _)"
        if isinstance(t[2], int):
            return f"(array {type_sexpr(t[1])} {t[2]} _)"
        return f"(array {type_sexpr(t[1])} -1 (var {t[2]}))"
    raise ValueError(t)


# ------------------------------------------------------------------ expressions

LITS = st.one_of(
    st.integers(0, 999).map(lambda v: ["lit", "int", str(v)]),
    st.integers(0, 99).map(lambda v: ["lit", "long", f"{v}L"]),
    st.sampled_from(["0.5f", "3.25f", "10f", "2.f"]).map(lambda v: ["lit", "float", v]),
    st.sampled_from(["0b", "1b"]).map(lambda v: ["lit", "bit", v]),
    st.sampled_from(['"s"', '""', '"a b"', '"x>y"', '"// no"']).map(lambda v: ["lit", "string", v]),
    st.sampled_from(["'c'", "' '", "'>'"]).map(lambda v: ["lit", "char", v]),
    st.sampled_from(["true", "false"]).map(lambda v: ["lit", "boolean", v]),
)


@functools.lru_cache(maxsize=None)
def expr_strategy(max_leaves):
    leaf = st.one_of(LITS, LITS, st.sampled_from(IDENTS).map(lambda n: ["var", n]), st.sampled_from(IDENTS).map(lambda n: ["var", n]),
                     st.just(["null"]), st.just(["this"]))
    all_ops = [op for ops in LEVELS for op in ops]

    def extend(children):
        name = st.sampled_from(IDENTS)
        lval = st.one_of(name.map(lambda n: ["var", n]), st.builds(lambda c, i: ["idx", c, i], children, children),
                         st.builds(lambda o, m: ["mem", o, m], children, name))
        new_type = st.one_of(st.sampled_from(TYPENAMES[:4]).map(lambda n: ["named", [n], None]),
                             st.builds(lambda n, a: ["named", [n], a], st.sampled_from(TYPENAMES[:3]),
                                       st.lists(type_strategy(0, allow_array=False), min_size=0, max_size=2)))
        return st.one_of(
            st.builds(lambda op, l, r: ["bin", op, l, r], st.sampled_from(all_ops), children, children),
            st.builds(lambda op, l, r: ["bin", op, l, r], st.sampled_from(all_ops), children, children),
            st.builds(lambda op, e: ["un", op, e], st.sampled_from(["-", "!", "~"]), children),
            st.builds(lambda t, e: ["cast", ["prim", t], e], st.sampled_from(CAST_TARGETS), children),
            st.builds(lambda op, e: ["post", op, e], st.sampled_from(["++", "--"]), lval),
            st.builds(lambda c, args: ["call", c, args], st.one_of(name.map(lambda n: ["var", n]),
                                                                   st.builds(lambda o, m: ["mem", o, m], children, name),
                                                                   st.builds(lambda m: ["mem", ["super"], m], name)),
                      st.lists(children, max_size=3)),
            st.builds(lambda c, i: ["idx", c, i], children, children),
            st.builds(lambda o, m: ["mem", o, m], children, name),
            st.builds(lambda t, args: ["new", t, args], new_type, st.lists(children, max_size=2)),
            st.builds(lambda e: ["measure", e], children),
            st.builds(lambda es: ["arr", es], st.lists(children, max_size=3)),
            st.builds(lambda n, v: ["set", n, v], name, children),
            st.builds(lambda c, i, v: ["aset", c, i, v], children, children, children),
            st.builds(lambda o, m, v: ["mset", o, m, v], children, name, children),
        )

    return st.recursive(leaf, extend, max_leaves=max_leaves)


def eprec(e):
    k = e[0]
    if k == "bin":
        return PREC[e[1]]
    if k in ("set", "aset", "mset"):
        return P_ASSIGN
    if k in ("un", "cast"):
        return P_PREFIX
    if k == "measure":
        return -1  # swallows everything to its right: handled through `tail`
    return P_POSTFIX + 1 if k in ("lit", "var", "null", "this", "super", "arr", "new") else P_POSTFIX


def starts_type_like(toks):
    """The documented-nowhere ambiguity: Ident[.Ident]* < type-arg tokens > Ident (generic type application)."""
    if not toks or not re.fullmatch(r"[A-Za-z_]\w*", toks[0]) or toks[0] in KEYWORDS:
        return False
    i = 0
    while i + 2 < len(toks) and toks[i + 1] == "." and re.fullmatch(r"[A-Za-z_]\w*", toks[i + 2]):
        i += 2
    if i + 1 < len(toks) and toks[i + 1] == "<":
        depth = 0
        j = i + 1
        ok = False
        while j < len(toks):
            t = toks[j]
            if t == "<":
                depth += 1
            elif t == ">":
                depth -= 1
                if depth == 0:
                    ok = True
                    break
            elif not (re.fullmatch(r"[A-Za-z_]\w*|\d+", t) or t in (".", ",", "[", "]")) or (t in KEYWORDS and t not in PRIMS):
                return False
            j += 1
        if not ok:
            return False
        i = j
    if i + 1 < len(toks):
        nxt = toks[i + 1]
        if re.fullmatch(r"[A-Za-z_]\w*", nxt) and nxt not in KEYWORDS:
            return True
        if nxt == "[":
            j = i + 2
            while j < len(toks) and toks[j] != "]":
                if toks[j] == ";":
                    return False
                j += 1
            if j + 1 < len(toks) and re.fullmatch(r"[A-Za-z_]\w*", toks[j + 1]) and toks[j + 1] not in KEYWORDS:
                return True
    return False


class Renderer:
    def __init__(self, draw=None, redundant=False):
        self.draw = draw
        self.redundant = redundant

    def maybe_paren(self, toks):
        if self.redundant and self.draw is not None and self.draw(st.integers(0, 5)) == 0:
            return self.paren(toks)
        return toks

    def paren(self, toks):
        # a parenthesised expression is a position where a type could start (cast syntax)
        if starts_type_like(toks):
            raise Discard()
        return ["("] + toks + [")"]

    def expr(self, e, ctx=P_ASSIGN, tail=True):
        """ctx: minimal precedence the context accepts without parentheses; tail: nothing follows in this slot."""
        k = e[0]
        p = eprec(e)
        need = False
        if k == "measure":
            need = not tail
        elif k in ("set", "aset", "mset"):
            need = ctx > P_ASSIGN
        else:
            need = p < ctx
        inner_tail = True if need else tail
        toks = self.bare(e, inner_tail)
        if need:
            return self.paren(toks)
        return self.maybe_paren(toks) if k not in ("set", "aset", "mset") or ctx == P_ASSIGN else toks

    def slot(self, e):
        return self.expr(e, P_ASSIGN, True)

    def index(self, e):
        # a constant negative index `a[-1]` is rejected at parse time by documentation (language-guide.md): kept out
        if e[0] == "un" and e[1] == "-" and e[2][0] == "lit" and e[2][1] == "int":
            raise Discard()
        return self.slot(e)

    def args(self, es):
        out = []
        for i, a in enumerate(es):
            if i:
                out.append(",")
            out += self.slot(a)
        return out

    def bare(self, e, tail):
        k = e[0]
        if k == "lit":
            return [e[2]]
        if k == "var":
            return [e[1]]
        if k == "null":
            return ["null"]
        if k == "this":
            return ["this"]
        if k == "super":
            return ["super"]
        if k == "bin":
            p = PREC[e[1]]
            return self.expr(e[2], p, False) + [e[1]] + self.expr(e[3], p + 1, tail)
        if k == "un":
            inner = self.expr(e[2], P_PREFIX, tail)
            return [e[1]] + inner
        if k == "cast":
            return ["("] + type_tokens(e[1]) + [")"] + self.expr(e[2], P_PREFIX, tail)
        if k == "post":
            return self.expr(e[2], P_POSTFIX, False) + [e[1]]
        if k == "call":
            return self.expr(e[1], P_POSTFIX, False) + ["("] + self.args(e[2]) + [")"]
        if k == "idx":
            return self.expr(e[1], P_POSTFIX, False) + ["["] + self.index(e[2]) + ["]"]
        if k == "mem":
            return self.expr(e[1], P_POSTFIX, False) + [".", e[2]]
        if k == "new":
            t = e[1]
            toks = ["new"] + type_tokens(t)
            return toks + ["("] + self.args(e[2]) + [")"]
        if k == "measure":
            return ["measure"] + self.expr(e[1], P_ASSIGN, True)
        if k == "arr":
            return ["{"] + self.args(e[1]) + ["}"]
        if k == "set":
            return [e[1], "="] + self.expr(e[2], P_ASSIGN, tail)
        if k == "aset":
            return self.expr(e[1], P_POSTFIX, False) + ["["] + self.index(e[2]) + ["]", "="] + self.expr(e[3], P_ASSIGN, tail)
        if k == "mset":
            return self.expr(e[1], P_POSTFIX, False) + [".", e[2], "="] + self.expr(e[3], P_ASSIGN, tail)
        raise ValueError(k)

    # ---- statements
    def stmt_expr_start(self, toks):
        """Tokens of an expression placed where a statement begins: the parser first asks whether a type starts here."""
        if starts_type_like(toks) or toks[0] in ("measure", "reset", "return", "if", "for", "while", "echo", "destroy", "final",
                                                  "{", "@") or toks[0] in PRIMS or toks[0] == "void":
            if toks[0] == "{" or toks[0] == "measure" or toks[0] in PRIMS:
                return ["("] + toks + [")"] if not starts_type_like(toks) else self._discard()
            raise Discard()
        return toks

    def _discard(self):
        raise Discard()

    def stmt(self, s):
        k = s[0]
        if k == "decl":
            _, t, names, final, tracked, init = s
            toks = (["final"] if final else []) + (["@", "tracked"] if tracked else []) + type_tokens(t)
            toks += [names[0]]
            for n in names[1:]:
                toks += [",", n]
            if init is not None:
                toks += ["="] + self.slot(init)
            return toks + [";"]
        if k == "set":
            return [s[1], "="] + self.slot(s[2]) + [";"]
        if k == "expr":
            toks = self.slot(s[1])
            return self.stmt_expr_start(toks) + [";"]
        if k == "return":
            return ["return"] + (self.slot(s[1]) if s[1] is not None else []) + [";"]
        if k == "if":
            toks = ["if", "("] + self.slot(s[1]) + [")"] + self.block(s[2])
            if s[3] is not None:
                toks += ["else"] + self.block(s[3])
            return toks
        if k == "while":
            return ["while", "("] + self.slot(s[1]) + [")"] + self.block(s[2])
        if k == "for":
            _, init, cond, inc, body = s
            toks = ["for", "("]
            if init is None:
                toks.append(";")
            elif init[0] == "decl":
                toks += self.stmt(init)
            else:
                toks += self.stmt_expr_start(self.slot(init[1])) + [";"]
            toks += self.slot(cond) + [";"] + self.slot(inc) + [")"] + self.block(body)
            return toks
        if k == "echo":
            return ["echo", "("] + self.slot(s[1]) + [")", ";"]
        if k == "reset":
            return ["reset"] + self.slot(s[1]) + [";"]
        if k == "measurestmt":
            return ["measure"] + self.slot(s[1]) + [";"]
        if k == "destroy":
            return ["destroy"] + self.slot(s[1]) + [";"]
        if k == "tern":
            cond = self.expr(s[1], 1, False)  # not an assignment; something ('?') follows
            return self.stmt_expr_start(cond) + ["?"] + self.stmt(s[2]) + [":"] + self.stmt(s[3])
        if k == "block":
            return self.block(s[1])
        raise ValueError(k)

    def block(self, body):
        toks = ["{"]
        for s in body:
            toks += self.stmt(s)
        return toks + ["}"]

    def params(self, ps):
        toks = ["("]
        for i, (t, n) in enumerate(ps):
            if i:
                toks.append(",")
            toks += type_tokens(t) + [n]
        return toks + [")"]

    def function(self, f):
        _, name, annots, params, ret, body = f
        toks = []
        for a in annots:
            toks += ["@", "quantum"] if a == "quantum" else ["@", "shots", "(", str(a[1]), ")"]
        return toks + ["function", name] + self.params(params) + ["->"] + type_tokens(ret) + self.block(body)

    def member(self, m, cname, tparams):
        k = m[0]
        if k == "field":
            _, vis, static, final, tracked, t, name, init = m
            toks = (["@", "tracked"] if tracked else []) + ([vis] if vis else []) + (["static"] if static else []) + \
                   (["final"] if final else []) + type_tokens(t) + [name]
            if init is not None:
                toks += ["="] + self.slot(init)
            return toks + [";"]
        if k == "method":
            _, vis, mods, quantum, name, params, ret, body = m
            toks = (["@", "quantum"] if quantum == "lead" else []) + ([vis] if vis else []) + list(mods) + \
                   (["@", "quantum"] if quantum == "trail" else []) + ["function", name] + self.params(params) + ["->"] + type_tokens(ret)
            return toks + (self.block(body) if body is not None else [";"])
        self_t = [cname] + (["<"] + [x for i, tp in enumerate(tparams) for x in (([","] if i else []) + [tp[0]])] + [">"] if tparams else [])
        if k == "ctor":
            _, vis, params, body = m
            toks = ([vis] if vis else []) + ["constructor"] + self.params(params) + ["->"] + self_t
            return toks + (self.block(body) if body is not None else ["=", "default", ";"])
        if k == "dtor":
            _, vis, body = m
            toks = ([vis] if vis else []) + ["destructor", "(", ")", "->", "void"]
            return toks + (self.block(body) if body is not None else ["=", "default", ";"])
        raise ValueError(k)

    def cls(self, c):
        _, name, mods, tparams, base, members = c
        toks = list(mods) + ["class", name]
        if tparams:
            toks.append("<")
            for i, (tp, bound) in enumerate(tparams):
                if i:
                    toks.append(",")
                toks.append(tp)
                if bound is not None:
                    toks += ["extends"] + type_tokens(bound)
            toks.append(">")
        if base is not None:
            toks += ["extends"] + type_tokens(base)
        toks.append("{")
        for m in members:
            toks += self.member(m, name, tparams)
        return toks + ["}"]

    def program(self, p):
        toks = []
        for d in p:
            if d[0] == "fn":
                toks += self.function(d)
            elif d[0] == "class":
                toks += self.cls(d)
            else:
                toks += self.stmt(d)
        return toks


def join_tokens(toks, draw=None):
    out = []
    for i, t in enumerate(toks):
        if i:
            if draw is None:
                out.append(" ")
            else:
                out.append(draw(st.sampled_from([" ", " ", " ", "\n", "  ", "\t", " // c ; ) > \n", "\n\n"])))
        out.append(t)
    return "".join(out) + "\n"


# ------------------------------------------------------------------ expected S-expressions (format of verifdrv parse)

def jstr(s):
    return json.dumps(s)


def esx(e):
    if e is None:
        return "_"
    k = e[0]
    if k == "lit":
        return f"(lit {e[1]} {jstr(e[2])})"
    if k == "var":
        return f"(var {e[1]})"
    if k in ("null", "this", "super"):
        return f"({k})"
    if k == "bin":
        return f"(bin {e[1]} {esx(e[2])} {esx(e[3])})"
    if k == "un":
        return f"(un {e[1]} {esx(e[2])})"
    if k == "cast":
        return f"(cast {type_sexpr(e[1])} {esx(e[2])})"
    if k == "post":
        return f"(post {e[1]} {esx(e[2])})"
    if k == "call":
        return "(call " + " ".join([esx(e[1])] + [esx(a) for a in e[2]]) + ")"
    if k == "idx":
        return f"(idx {esx(e[1])} {esx(e[2])})"
    if k == "mem":
        return f"(mem {esx(e[1])} {e[2]})"
    if k == "new":
        t = e[1]
        ts = type_sexpr(t)
        return "(new " + " ".join([ts] + [esx(a) for a in e[2]]) + ")"
    if k == "measure":
        return f"(measure {esx(e[1])})"
    if k == "arr":
        return "(arr" + "".join(" " + esx(a) for a in e[1]) + ")"
    if k == "set":
        return f"(set {e[1]} {esx(e[2])})"
    if k == "aset":
        return f"(aset {esx(e[1])} {esx(e[2])} {esx(e[3])})"
    if k == "mset":
        return f"(mset {esx(e[1])} {e[2]} {esx(e[3])})"
    raise ValueError(k)


def ssx(s):
    """Returns a list of S-expressions (multi-declared qubits expand to several declarations)."""
    k = s[0]
    if k == "decl":
        _, t, names, final, tracked, init = s
        out = []
        for i, n in enumerate(names):
            ann = "[@tracked]" if tracked else "[]"
            out.append(f"(decl {type_sexpr(t)} {n}{' final' if final else ''}{' tracked' if tracked else ''} {ann} "
                       f"{esx(init) if i == 0 else '_'})")
        return out
    if k == "set":
        return [f"(set {s[1]} {esx(s[2])})"]
    if k == "expr":
        e = s[1]
        return [esx(e)] if e[0] == "set" else [f"(expr {esx(e)})"]
    if k == "return":
        return [f"(return {esx(s[1])})"]
    if k == "if":
        return [f"(if {esx(s[1])} {bsx(s[2])} {bsx(s[3]) if s[3] is not None else '_'})"]
    if k == "while":
        return [f"(while {esx(s[1])} {bsx(s[2])})"]
    if k == "for":
        _, init, cond, inc, body = s
        i = "_" if init is None else ssx(init)[0]
        return [f"(for {i} {esx(cond)} {esx(inc)} {bsx(body)})"]
    if k == "echo":
        return [f"(echo {esx(s[1])})"]
    if k == "reset":
        return [f"(reset {esx(s[1])})"]
    if k == "measurestmt":
        return [f"(measurestmt {esx(s[1])})"]
    if k == "destroy":
        return [f"(destroy {esx(s[1])})"]
    if k == "tern":
        return [f"(tern {esx(s[1])} {ssx(s[2])[0]} {ssx(s[3])[0]})"]
    if k == "block":
        return [bsx(s[1])]
    raise ValueError(k)


def bsx(body):
    return "(block" + "".join(" " + x for s in body for x in ssx(s)) + ")"


def psx(ps):
    return "(params" + "".join(f" ({type_sexpr(t)} {n})" for t, n in ps) + ")"


def program_sexpr(p):
    out = ["(program"]
    classes = [d for d in p if d[0] == "class"]
    fns = [d for d in p if d[0] == "fn"]
    stmts = [d for d in p if d[0] not in ("class", "fn")]
    for c in classes:
        _, name, mods, tparams, base, members = c
        is_static = "static" in mods
        s = f"(class {name}{' static' if is_static else ''}{' abstract' if 'abstract' in mods else ''} (tparams"
        for tp, bound in tparams:
            s += f" ({tp} {type_sexpr(bound)})"
        s += f") (base {type_sexpr(base) if base is not None else '_'})"
        for m in members:
            k = m[0]
            if k == "field":
                _, vis, static, final, tracked, t, fname, init = m
                v = vis or ("public" if is_static else "private")
                s += (f" (field {v}{' static' if static else ''}{' final' if final else ''}{' tracked' if tracked else ''} "
                      f"{'[@tracked]' if tracked else '[]'} {type_sexpr(t)} {fname} {esx(init)})")
            elif k == "method":
                _, vis, mmods, quantum, mname, params, ret, body = m
                v = vis or ("public" if is_static else "private")
                s += (f" (method {v}{' static' if 'static' in mmods else ''}{' virtual' if 'virtual' in mmods else ''}"
                      f"{' override' if 'override' in mmods else ''}{' quantum' if quantum else ''} "
                      f"{'[@quantum]' if quantum else '[]'} {mname} {psx(params)} {type_sexpr(ret)} "
                      f"{bsx(body) if body is not None else '_'})")
            elif k == "ctor":
                _, vis, params, body = m
                v = vis or "private"
                s += f" (ctor {v}{' default' if body is None else ''} {psx(params)} {bsx(body) if body is not None else '_'})"
            elif k == "dtor":
                _, vis, body = m
                v = vis or "private"
                s += f" (dtor {v}{' default' if body is None else ''} {bsx(body) if body is not None else '_'})"
        out.append(s + ")")
    shots = (0, 0)
    for f in fns:
        _, name, annots, params, ret, body = f
        q = "quantum" in annots
        sh = [a for a in annots if a != "quantum"]
        ann = "[" + " ".join("@quantum" if a == "quantum" else f"@shots={a[1]}" for a in annots) + "]"
        out.append(f"(fn {name}{' quantum' if q else ''}{' shots' if sh else ''} {ann} {psx(params)} {type_sexpr(ret)} {bsx(body)})")
    for s in stmts:
        out += ssx(s)
    out.append("(shots 0 0))")
    return " ".join(out)


# ------------------------------------------------------------------ statement / declaration strategies

@functools.lru_cache(maxsize=None)
def stmt_strategy(max_leaves, depth=2):
    e = expr_strategy(max_leaves)
    name = st.sampled_from(IDENTS)
    nonassign = e.filter(lambda x: x[0] not in ("set", "aset", "mset"))
    simple = st.one_of(
        st.builds(lambda t, n, f, i: ["decl", t, [n], f, False, i], type_strategy(1), name, st.booleans(), st.one_of(st.none(), e)),
        st.builds(lambda ns, tr, f: ["decl", ["prim", "qubit"], ns, f, tr, None], st.lists(name, min_size=1, max_size=3, unique=True),
                  st.booleans(), st.booleans()),
        st.builds(lambda sz, n, tr: ["decl", ["array", ["prim", "qubit"], sz], [n], False, tr, None], st.integers(1, 4), name, st.booleans()),
        st.builds(lambda n, v: ["set", n, v], name, e),
        st.builds(lambda x: ["expr", x], e),
        st.builds(lambda x: ["return", x], st.one_of(st.none(), e)),
        st.builds(lambda x: ["echo", x], e),
        st.builds(lambda x: ["reset", x], e),
        st.builds(lambda x: ["measurestmt", x], e),
        st.builds(lambda x: ["destroy", x], e),
    )
    if depth <= 0:
        return simple
    sub = stmt_strategy(max(2, max_leaves // 2), depth - 1)
    body = st.lists(sub, max_size=3)
    for_init = st.one_of(st.none(),
                         st.builds(lambda t, n, i: ["decl", ["prim", t], [n], False, False, i],
                                   st.sampled_from(["int", "long", "float", "bit", "boolean", "string", "char"]), name, e),
                         st.builds(lambda x: ["expr", x], e))
    return st.one_of(
        simple, simple,
        st.builds(lambda c, t, f: ["if", c, t, f], e, body, st.one_of(st.none(), body)),
        st.builds(lambda c, b: ["while", c, b], e, body),
        st.builds(lambda i, c, inc, b: ["for", i, c, inc, b], for_init, e, e, body),
        # a branch is ONE statement: multi-declared qubits (which the parser expands into several) are kept out
        st.builds(lambda c, a, b: ["tern", c, a, b], nonassign, sub.filter(lambda x: not (x[0] == "decl" and len(x[2]) > 1)),
                  sub.filter(lambda x: not (x[0] == "decl" and len(x[2]) > 1))),
        st.builds(lambda b: ["block", b], body),
    )


@functools.lru_cache(maxsize=None)
def function_strategy(max_leaves):
    name = st.sampled_from(["f", "g", "calc", "main", "run"])
    params = st.lists(st.tuples(type_strategy(1), st.sampled_from(IDENTS)).map(list), max_size=3)
    annots = st.one_of(st.just([]), st.just([]), st.just(["quantum"]), st.integers(1, 5000).map(lambda n: [["shots", n]]),
                       st.integers(1, 99).map(lambda n: ["quantum", ["shots", n]]))
    return st.builds(lambda n, a, p, r, b: ["fn", n, a, p, r, b], name, annots, params, type_strategy(1, allow_void=True),
                     st.lists(stmt_strategy(max_leaves), max_size=4))


@functools.lru_cache(maxsize=None)
def class_strategy(max_leaves):
    e = expr_strategy(max(2, max_leaves // 2))
    name = st.sampled_from(IDENTS)
    vis = st.sampled_from([None, "public", "private", "protected"])
    params = st.lists(st.tuples(type_strategy(1), name).map(list), max_size=2)
    body = st.lists(stmt_strategy(max(2, max_leaves // 2), 1), max_size=3)

    def members(is_static):
        field = st.builds(lambda v, s, f, tr, t, n, i: ["field", v, s or is_static, f, tr and t[0] == "prim" and t[1] == "qubit", t, n, i],
                          vis, st.booleans(), st.booleans(), st.booleans(), type_strategy(1), name, st.one_of(st.none(), e))
        mods = st.sampled_from([[], ["virtual"], ["override"], ["static"]]) if not is_static else st.just(["static"])
        method = st.builds(lambda v, m, q, n, p, r, b, bodyless: ["method", v, m, q, n, p, r, None if (bodyless and "virtual" in m) else b],
                           vis, mods, st.sampled_from([None, None, "lead", "trail"]), name, params,
                           type_strategy(1, allow_void=True), body, st.booleans())
        if is_static:
            return st.lists(st.one_of(field, method), max_size=4)
        ctor = st.builds(lambda v, p, b, d: ["ctor", v, p, None if d else b], vis, params, body, st.booleans())
        dtor = st.builds(lambda v, b, d: ["dtor", v, None if d else b], vis, body, st.booleans())
        return st.lists(st.one_of(field, field, method, method, ctor, dtor), max_size=5)

    tparams = st.one_of(st.just([]), st.just([]),
                        st.lists(st.tuples(st.sampled_from(["T", "K"]),
                                           st.one_of(st.none(), st.sampled_from(TYPENAMES[:4]).map(lambda n: ["named", [n], None]))).map(list),
                                 min_size=1, max_size=2, unique_by=lambda x: x[0]))
    base = st.one_of(st.none(), st.sampled_from(TYPENAMES[:4]).map(lambda n: ["named", [n], None]),
                     st.builds(lambda n, a: ["named", [n], a], st.sampled_from(TYPENAMES[:3]), st.lists(type_strategy(0, False), min_size=1, max_size=2)))
    cname = st.sampled_from(["Alpha", "Beta", "Gamma"])
    return st.one_of(
        st.builds(lambda n, ab, tp, b, ms: ["class", n, ["abstract"] if ab else [], tp, b, ms], cname, st.booleans(), tparams, base, members(False)),
        st.builds(lambda n, ms: ["class", n, ["static"], [], None, ms], cname, members(True)),
    )


@functools.lru_cache(maxsize=None)
def program_strategy(max_leaves):
    return st.lists(st.one_of(function_strategy(max_leaves), function_strategy(max_leaves), class_strategy(max_leaves),
                              stmt_strategy(max_leaves, 1)), min_size=1, max_size=4)


# ------------------------------------------------------------------ non-trivial rule

def nontrivial(p):
    found = []

    def we(e, parent=None):
        if not isinstance(e, list) or not e:
            return
        k = e[0]
        if k == "bin":
            for c in (e[2], e[3]):
                if isinstance(c, list) and c and c[0] == "bin" and PREC[c[1]] != PREC[e[1]]:
                    found.append("levels")
        if k in ("un", "cast") and isinstance(e[2], list) and e[2] and e[2][0] in ("call", "idx", "mem", "post"):
            found.append("prefix_of_postfix")
        for c in e[1:]:
            if isinstance(c, list):
                if c and isinstance(c[0], str):
                    we(c, e)
                else:
                    for x in c:
                        if isinstance(x, list):
                            we(x, e)

    def wd(d):
        if d[0] == "class":
            for m in d[5]:
                if (m[0] == "field" and (m[1] or m[2] or m[3] or m[4])) or (m[0] == "method" and (m[2] or m[3])):
                    found.append("annotated_member")
        we(d)

    for d in p:
        wd(d)
    return sorted(set(found))
