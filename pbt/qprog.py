"""`quantum` profile: generator, renderer and abstract interpreter for Bloch programs that use qubits through every
access path (variable, qubit[] element, function parameter, nested call, static-method parameter, object field,
this.field / bare field inside a method), measurement in all forms, reset, conditionals on measured bits, loops over
registers, @tracked, object destruction and qubit re-use.

The generator knows, for every emitted statement, the abstract operation and the HANDLE (declaration instance) it
addresses.  `interpret()` walks the statement tree, driven by the logged measurement outcomes so that it takes the same
branches as the run, and yields the expected quantum-operation sequence (with handles), echo lines and tracked outcomes.

Statements (JSON-able lists):
  ["qdecl", name, tracked]            ["rdecl", name, n, tracked]          ["odecl", name]   (Holder object: q + r[2])
  ["gate", g, path, [handles], angle] path in direct|fn|nested|static|self
  ["mstmt", handle]   ["mexpr", handle, bitvar, path]   ["mecho", handle, path]   ["marr", reg-handle]   ["reset", handle]
  ["ifbit", bitvar, then, else]       ["loop", regname, n, g, path, angle]   ["destroy", objname]   ["block", stmts]
Handles: ["var", q] | ["elem", r, i] | ["field", o, "q"] | ["felem", o, "r", i]
"""
import math
import re

from hypothesis import strategies as st

ANGLES = [0.5, 1.0, 1.5, 0.25, 2.0, 3.0, 0.75, 0.125, 2.5]
GATES1 = ["h", "x", "y", "z"]
ROT = ["rx", "ry", "rz"]

PRELUDE = """static class QU {
    @quantum public static function ap_h(qubit a) -> void { h(a); }
    @quantum public static function ap_x(qubit a) -> void { x(a); }
    @quantum public static function ap_y(qubit a) -> void { y(a); }
    @quantum public static function ap_z(qubit a) -> void { z(a); }
    @quantum public static function ap_rx(qubit a, float t) -> void { rx(a, t); }
    @quantum public static function ap_ry(qubit a, float t) -> void { ry(a, t); }
    @quantum public static function ap_rz(qubit a, float t) -> void { rz(a, t); }
    @quantum public static function ap_cx(qubit a, qubit b) -> void { cx(a, b); }
    @quantum public static function ap_m(qubit a) -> bit { return measure a; }
}
class Holder {
    HOLDER_Q
    HOLDER_R
    public constructor() -> Holder = default;
    @quantum public function self_h() -> void { h(this.q); }
    @quantum public function self_x() -> void { x(q); }
    @quantum public function self_cx() -> void { cx(q, this.r[0]); }
    @quantum public function self_m() -> bit { return measure this.q; }
    @quantum public function other_h(qubit a) -> void { h(a); }
}
@quantum function g_h(qubit a) -> void { h(a); }
@quantum function g_x(qubit a) -> void { x(a); }
@quantum function g_y(qubit a) -> void { y(a); }
@quantum function g_z(qubit a) -> void { z(a); }
@quantum function g_rx(qubit a, float t) -> void { rx(a, t); }
@quantum function g_ry(qubit a, float t) -> void { ry(a, t); }
@quantum function g_rz(qubit a, float t) -> void { rz(a, t); }
@quantum function g_cx(qubit a, qubit b) -> void { cx(a, b); }
@quantum function g_m(qubit a) -> bit { return measure a; }
@quantum function n_h(qubit a) -> void { g_h(a); }
@quantum function n_cx(qubit a, qubit b) -> void { g_cx(b, a); }
@quantum function n_m(qubit a) -> bit { bit res = g_m(a); return res; }
function tf_meas() -> void { @tracked qubit w; x(w); measure w; }
function tf_rand() -> void { @tracked qubit w; h(w); measure w; }
function tf_unmeas() -> void { @tracked qubit w; h(w); }
function tf_reg() -> void { @tracked qubit[2] wr; x(wr[1]); measure wr[0]; measure wr[1]; }
function tf_part() -> void { @tracked qubit[2] wr; measure wr[1]; }
"""


def prelude(tracked_q=False, tracked_r=False):
    return PRELUDE.replace("HOLDER_Q", ("@tracked " if tracked_q else "") + "public qubit q;") \
                  .replace("HOLDER_R", ("@tracked " if tracked_r else "") + "public qubit[2] r;")


def hname(h):
    if h[0] == "var":
        return h[1]
    if h[0] == "elem":
        return f"{h[1]}[{h[2]}]"
    if h[0] == "field":
        return f"{h[1]}.q"
    return f"{h[1]}.r[{h[3]}]"


def hkey(h):
    return tuple(h)


def f32(x):
    import struct
    return struct.unpack("f", struct.pack("f", x))[0]


# computed (non-literal) angles: value as the evaluator computes it in double precision from float32 literals
COMPUTED_ANGLES = [
    ("0.1f * 7001", f32(0.1) * 7001), ("700.0f + 0.1f", 700.0 + f32(0.1)), ("0.3f * 12345", f32(0.3) * 12345),
    ("1.7f * 671088", f32(1.7) * 671088), ("67108864.0f + 3", 67108864.0 + 3), ("(0.1f + 0.2f) * 100", (f32(0.1) + f32(0.2)) * 100),
    ("0.7f / 3", f32(0.7) / 3.0), ("-(0.1f * 333)", -(f32(0.1) * 333)), ("16.5f + 0.001f", 16.5 + f32(0.001)),
]


def aval(a):
    return a[0] if isinstance(a, list) else a


def fang(a):
    if isinstance(a, list):
        return a[1]
    s = repr(float(abs(a)))
    return ("-" if a < 0 else "") + s + "f"


def render_gate(g, path, hs, angle):
    args = [hname(h) for h in hs]
    if g in ROT:
        args.append(fang(angle))
    a = ", ".join(args)
    if path == "direct":
        return f"{g}({a});"
    if path == "fn":
        return f"g_{g}({a});"
    if path == "nested":
        if g == "h":
            return f"n_h({a});"
        if g == "cx":
            return f"n_cx({args[1]}, {args[0]});"  # n_cx swaps back
        return f"g_{g}({a});"
    if path == "static":
        return f"QU.ap_{g}({a});"
    if path == "self":  # gate on the object's own field through a method using this.q / bare q
        o = hs[0][1]
        return {"h": f"{o}.self_h();", "x": f"{o}.self_x();", "cx": f"{o}.self_cx();"}[g]
    if path == "method":  # other object's method applied to a foreign qubit
        return f"{hs[-1]}"  # unused
    raise ValueError(path)


def render_stmt(s, ind, out):
    pad = "    " * ind
    k = s[0]
    if k == "qdecl":
        out.append(f"{pad}{'@tracked ' if s[2] else ''}qubit {s[1]};")
    elif k == "qdecl2":
        out.append(f"{pad}{'@tracked ' if s[3] else ''}qubit {s[1]}, {s[2]};")
    elif k == "rdecl":
        out.append(f"{pad}{'@tracked ' if s[3] else ''}qubit[{s[2]}] {s[1]};")
    elif k == "odecl":
        out.append(f"{pad}Holder {s[1]} = new Holder();")
    elif k == "gate":
        out.append(pad + render_gate(s[1], s[2], s[3], s[4]))
    elif k == "cxalias":
        a = hname(s[2])
        out.append(pad + {"direct": f"cx({a}, {a});", "fn": f"g_cx({a}, {a});", "static": f"QU.ap_cx({a}, {a});",
                          "nested": f"n_cx({a}, {a});"}[s[1]])
    elif k == "mstmt":
        out.append(f"{pad}measure {hname(s[1])};")
    elif k == "mexpr":
        h, b, path = s[1], s[2], s[3]
        rhs = {"direct": f"measure {hname(h)}", "fn": f"g_m({hname(h)})", "nested": f"n_m({hname(h)})",
               "static": f"QU.ap_m({hname(h)})", "self": f"{h[1]}.self_m()"}[path]
        out.append(f"{pad}bit {b} = {rhs};")
        out.append(f"{pad}echo({b});")
    elif k == "mecho":
        h, path = s[1], s[2]
        rhs = {"direct": f"measure {hname(h)}", "fn": f"g_m({hname(h)})", "nested": f"n_m({hname(h)})",
               "static": f"QU.ap_m({hname(h)})", "self": f"{h[1]}.self_m()"}[path]
        out.append(f"{pad}echo({rhs});")
    elif k == "marr":
        out.append(f"{pad}measure {s[1][1] if s[1][0] == 'var' else s[1][1] + '.r'};")
    elif k == "reset":
        out.append(f"{pad}reset {hname(s[1])};")
    elif k == "ifbit":
        out.append(f"{pad}if ({s[1]}) {{")
        for x in s[2]:
            render_stmt(x, ind + 1, out)
        out.append(f"{pad}}} else {{")
        for x in s[3]:
            render_stmt(x, ind + 1, out)
        out.append(f"{pad}}}")
    elif k == "loop":
        _, reg, n, g, path, angle, iv = s
        out.append(f"{pad}for (int {iv} = 0; {iv} < {n}; {iv} = {iv} + 1) {{")
        tgt = f"{reg}[{iv}]"
        arg = tgt + (", " + fang(angle) if g in ROT else "")
        call = {"direct": f"{g}({arg});", "fn": f"g_{g}({arg});", "static": f"QU.ap_{g}({arg});"}[path]
        out.append(f"{pad}    {call}")
        out.append(f"{pad}}}")
    elif k == "destroy":
        out.append(f"{pad}destroy {s[1]};")
    elif k == "block":
        out.append(f"{pad}{{")
        for x in s[1]:
            render_stmt(x, ind + 1, out)
        out.append(f"{pad}}}")
    elif k == "tloop":
        _, n, nm, g, meas, iv = s
        body = f"@tracked qubit {nm};" + (f" {g}({nm});" if g else "") + (f" measure {nm};" if meas else "")
        out.append(f"{pad}for (int {iv} = 0; {iv} < {n}; {iv} = {iv} + 1) {{ {body} }}")
    elif k == "thelper":
        out.append(f"{pad}tf_{s[1]}();")
    elif k == "echo":
        out.append(f"{pad}echo({s[1]});")
    else:
        raise ValueError(k)


def render(p):
    out = [prelude(p.get("tracked_q", False), p.get("tracked_r", False))]
    hdr = f"@shots({p['shots_annot']})\n" if p.get("shots_annot") else ""
    out.append(hdr + "function main() -> void {")
    for s in p["main"]:
        render_stmt(s, 1, out)
    out.append("}")
    return "\n".join(out) + "\n"


# ------------------------------------------------------------------ generation

class GenState:
    def __init__(self):
        self.qubits = {}  # hkey -> "active" | "measured" | "unknown"
        self.regs = {}  # reg name -> n
        self.objs = {}  # obj name -> alive
        self.bits = []
        self.nq = 0
        self.names = 0
        self.scope = [[]]  # handles declared per scope (for scope exit)

    def fresh(self, prefix):
        self.names += 1
        return f"{prefix}{self.names}"

    def active(self):
        return [list(k) for k, v in self.qubits.items() if v == "active"]

    def usable_for_reset(self):
        return [list(k) for k in self.qubits]


@st.composite
def gen_stmts(draw, gs, n, depth, max_q, feats):
    out = []
    for _ in range(n):
        choices = []
        nodecl = feats.get("nodecl")
        if gs.nq < max_q and not nodecl:
            choices += ["qdecl", "qdecl"]
            if gs.nq + 2 <= max_q:
                choices += ["rdecl", "qdecl2"]
            if feats.get("objects") and gs.nq + 3 <= max_q and not any(gs.objs.values()):
                choices += ["odecl", "odecl"]
        act = gs.active()
        if act:
            choices += ["gate1", "gate1", "gate1", "rot", "mexpr", "mstmt", "reset"]
            if len(act) >= 2:
                choices += ["cx", "cx", "cx"]
            if feats.get("alias"):
                choices += ["cxalias"]
        if [k for k, v in gs.qubits.items() if v != "active"]:
            choices += ["reset_measured"]
        if gs.bits and depth > 0:
            choices += ["ifbit", "ifbit"]
        live_objs = [o for o, a in gs.objs.items() if a]
        if live_objs:
            choices += ["selfgate", "selfgate"] + ([] if nodecl else ["destroy"])
        regs_all_active = [r for r, nn in gs.regs.items() if all(gs.qubits.get(("elem", r, i)) == "active" for i in range(nn))]
        if regs_all_active:
            choices += ["marr", "loop"]
        if depth > 0 and gs.nq < max_q and not nodecl:
            choices += ["block"]
        if not choices:
            break
        c = draw(st.sampled_from(choices))
        path1 = st.sampled_from(["direct", "direct", "fn", "nested", "static"])
        if c == "qdecl":
            nm = gs.fresh("q")
            tr = draw(st.booleans()) if feats.get("tracked") else False
            gs.qubits[("var", nm)] = "active"
            gs.nq += 1
            gs.scope[-1].append(("var", nm))
            out.append(["qdecl", nm, tr])
        elif c == "qdecl2":
            a, b = gs.fresh("q"), gs.fresh("q")
            tr = draw(st.booleans()) if feats.get("tracked") else False
            for nm in (a, b):
                gs.qubits[("var", nm)] = "active"
                gs.scope[-1].append(("var", nm))
            gs.nq += 2
            out.append(["qdecl2", a, b, tr])
        elif c == "rdecl":
            nm = gs.fresh("r")
            n_el = draw(st.integers(2, min(3, max_q - gs.nq)))
            tr = draw(st.booleans()) if feats.get("tracked") else False
            gs.regs[nm] = n_el
            for i in range(n_el):
                gs.qubits[("elem", nm, i)] = "active"
            gs.nq += n_el
            out.append(["rdecl", nm, n_el, tr])
        elif c == "odecl":
            nm = gs.fresh("o")
            gs.objs[nm] = True
            gs.qubits[("field", nm, "q")] = "active"
            gs.qubits[("felem", nm, "r", 0)] = "active"
            gs.qubits[("felem", nm, "r", 1)] = "active"
            gs.nq += 3
            out.append(["odecl", nm])
        elif c == "gate1":
            h = draw(st.sampled_from(act))
            out.append(["gate", draw(st.sampled_from(GATES1)), draw(path1), [h], None])
        elif c == "rot":
            h = draw(st.sampled_from(act))
            a = draw(st.sampled_from(ANGLES)) * draw(st.sampled_from([1, 1, -1]))
            if draw(st.integers(0, 2)) == 0:
                src, v = draw(st.sampled_from(COMPUTED_ANGLES))
                a = [v, src]
            out.append(["gate", draw(st.sampled_from(ROT)), draw(st.sampled_from(["direct", "fn", "static"])), [h], a])
        elif c == "cx":
            h1 = draw(st.sampled_from(act))
            h2 = draw(st.sampled_from([x for x in act if x != h1]))
            out.append(["gate", "cx", draw(path1), [h1, h2], None])
        elif c == "cxalias":
            h = draw(st.sampled_from(act))
            out.append(["cxalias", draw(st.sampled_from(["direct", "fn", "static", "nested"])), h])
        elif c == "selfgate":
            o = draw(st.sampled_from(live_objs))
            g = draw(st.sampled_from(["h", "x", "cx"]))
            need = [("field", o, "q")] + ([("felem", o, "r", 0)] if g == "cx" else [])
            if all(gs.qubits.get(k) == "active" for k in need):
                out.append(["gate", g, "self", [list(k) for k in need], None])
        elif c == "mstmt":
            h = draw(st.sampled_from(act))
            gs.qubits[hkey(h)] = "measured"
            out.append(["mstmt", h])
        elif c == "mexpr":
            h = draw(st.sampled_from(act))
            b = gs.fresh("b")
            path = draw(st.sampled_from(["direct", "direct", "fn", "nested", "static"]))
            if h[0] == "field" and draw(st.booleans()):
                path = "self"
            gs.qubits[hkey(h)] = "measured"
            if draw(st.integers(0, 3)) == 0:
                # the measurement sits directly in the echo argument: it must happen whether or not echo output is shown
                out.append(["mecho", h, path])
            else:
                gs.bits.append(b)
                out.append(["mexpr", h, b, path])
        elif c == "marr":
            r = draw(st.sampled_from(regs_all_active))
            for i in range(gs.regs[r]):
                gs.qubits[("elem", r, i)] = "measured"
            out.append(["marr", ["var", r]])
        elif c == "loop":
            r = draw(st.sampled_from(regs_all_active))
            g = draw(st.sampled_from(GATES1 + ["ry"]))
            a = draw(st.sampled_from(ANGLES)) if g in ROT else None
            out.append(["loop", r, gs.regs[r], g, draw(st.sampled_from(["direct", "fn", "static"])), a, gs.fresh("i")])
        elif c in ("reset", "reset_measured"):
            cand = act if c == "reset" else [list(k) for k, v in gs.qubits.items() if v != "active"]
            h = draw(st.sampled_from(cand))
            gs.qubits[hkey(h)] = "active"
            out.append(["reset", h])
        elif c == "ifbit":
            b = draw(st.sampled_from(gs.bits))
            snap = dict(gs.qubits)
            bits0 = list(gs.bits)
            th = draw(gen_stmts(gs, draw(st.integers(1, 3)), 0, max_q, {**feats, "objects": False, "nodecl": True}))
            q_then = dict(gs.qubits)
            gs.qubits = dict(snap)
            gs.bits = list(bits0)
            el = draw(gen_stmts(gs, draw(st.integers(0, 2)), 0, max_q, {**feats, "objects": False, "nodecl": True}))
            gs.bits = list(bits0)
            for k in gs.qubits:
                if q_then.get(k) != gs.qubits[k]:
                    gs.qubits[k] = "unknown"
            out.append(["ifbit", b, _strip_decls(th), _strip_decls(el)])
        elif c == "destroy":
            o = draw(st.sampled_from(live_objs))
            gs.objs[o] = False
            for k in [k for k in gs.qubits if k[0] in ("field", "felem") and k[1] == o]:
                del gs.qubits[k]
            out.append(["destroy", o])
        elif c == "block":
            bits0 = list(gs.bits)
            keys0 = set(gs.qubits)
            body = draw(gen_stmts(gs, draw(st.integers(1, 4)), depth - 1, max_q, {**feats, "objects": False}))
            for k in [k for k in gs.qubits if k not in keys0]:
                del gs.qubits[k]  # handles of the inner scope are gone (their simulator qubits are not released)
            for r in [r for r in gs.regs if not any(k[0] == "elem" and k[1] == r for k in gs.qubits)]:
                del gs.regs[r]
            gs.bits = bits0
            out.append(["block", body])
    return out


def _strip_decls(stmts):
    """Branches declare nothing (keeps allocation order independent of outcomes)."""
    return [s for s in stmts if s[0] not in ("qdecl", "qdecl2", "rdecl", "odecl", "block", "destroy")]


@st.composite
def qprogram(draw, max_q=6, nstmts=14, measure=True, objects=True, tracked=True, alias=False):
    gs = GenState()
    feats = {"objects": objects, "tracked": tracked, "alias": alias}
    body = draw(gen_stmts(gs, draw(st.integers(4, nstmts)), 2, max_q, feats))
    if not measure:
        body = _no_measure(body)
    return {"main": body, "tracked_q": draw(st.booleans()) if tracked else False,
            "tracked_r": draw(st.booleans()) if tracked else False, "seed": draw(st.integers(0, 2**31 - 1))}


def _no_measure(stmts):
    out = []
    for s in stmts:
        if s[0] in ("mstmt", "mexpr", "mecho", "marr", "ifbit", "reset", "destroy"):
            continue
        if s[0] == "gate" and s[2] == "self":
            pass
        if s[0] == "block":
            s = ["block", _no_measure(s[1])]
        out.append(s)
    return out


# ------------------------------------------------------------------ abstract interpretation

class ModelError(Exception):
    pass


class Interp:
    """Walks the program with the logged outcomes; produces expected ops / echo / tracked outcomes."""

    def __init__(self, prog, outcomes):
        self.p = prog
        self.outcomes = list(outcomes)  # [[op, qubit, branch], ...] in execution order
        self.oi = 0
        self.ops = []  # expected quantum ops: dict(kind, hs, angle, implicit)
        self.echo = []
        self.tracked = {}
        self.bits = {}
        self.last = {}  # handle -> last measured value or None
        self.measured = {}  # handle -> bool
        self.live = set()
        self.free = 0  # number of released simulator indices available for re-use
        self.scopes = [[]]
        self.objs = {}
        self.regs = {}
        self.alias_reached = False
        self.uid = 0

    def next_outcome(self, kind):
        # outcomes are consumed in order; the qubit index is checked later against the handle map
        while self.oi < len(self.outcomes):
            o = self.outcomes[self.oi]
            self.oi += 1
            if o[0] == kind:
                return o
            raise ModelError(f"outcome log has {o} where a '{kind}' was expected")
        raise ModelError("outcome log exhausted")

    def alloc(self, h, tracked, label):
        k = hkey(h)
        self.live.add(k)
        self.last[k] = None
        self.measured[k] = False
        if self.free > 0:
            # re-used index: the implementation resets it first
            self.free -= 1
            o = self.next_outcome("r")
            self.ops.append({"kind": "reset", "hs": [k], "implicit": "reuse", "branch": o[2], "live": frozenset(self.live)})
        else:
            self.ops.append({"kind": "alloc", "hs": [k]})

    def gate(self, g, hs, angle):
        for h in hs:
            if self.measured[hkey(h)]:
                raise ModelError(f"gate on measured qubit {h}")
        self.ops.append({"kind": g, "hs": [hkey(h) for h in hs], "angle": aval(angle) if angle is not None else None,
                         "live": frozenset(self.live)})

    def measure(self, h):
        k = hkey(h)
        if self.measured[k]:
            raise ModelError(f"measure of measured qubit {h}")
        o = self.next_outcome("m")
        self.ops.append({"kind": "measure", "hs": [k], "branch": o[2], "live": frozenset(self.live)})
        self.measured[k] = True
        self.last[k] = o[2]
        return o[2]

    def reset(self, h, implicit=None):
        k = hkey(h)
        o = self.next_outcome("r")
        self.ops.append({"kind": "reset", "hs": [k], "implicit": implicit, "branch": o[2], "live": frozenset(self.live)})
        self.measured[k] = False
        self.last[k] = None

    def record_tracked(self, key, hs):
        vals = [self.last[hkey(h)] for h in hs]
        outcome = "?" if any(v is None for v in vals) else "".join(str(v) for v in vals)
        self.tracked.setdefault(key, {})
        self.tracked[key][outcome] = self.tracked[key].get(outcome, 0) + 1

    def release_object(self, o):
        hq = ["field", o, "q"]
        hr = [["felem", o, "r", 0], ["felem", o, "r", 1]]
        if self.p.get("tracked_q"):
            self.record_tracked("Holder.q", [hq])
        self.reset(hq, "release")
        if self.p.get("tracked_r"):
            self.record_tracked("Holder.r", hr)
        for h in hr:
            self.reset(h, "release")
        for h in [hq] + hr:
            self.live.discard(hkey(h))
        self.free += 3
        self.objs[o] = False

    def run(self):
        self.block(self.p["main"], top=True)
        return self

    def end_scope(self, entries):
        # tracked locals record at scope exit; objects still alive die here
        for kind, name, hs, tracked in entries:
            if kind == "obj":
                if self.objs.get(name):
                    self.release_object(name)
            elif tracked:
                self.record_tracked(("qubit " if kind == "q" else "qubit[] ") + name, hs)

    def stmt(self, s):
        k = s[0]
        if k == "qdecl":
            h = ["var", s[1]]
            self.alloc(h, s[2], s[1])
            self.cur().append(("q", s[1], [h], s[2]))
        elif k == "qdecl2":
            for nm in (s[1], s[2]):
                h = ["var", nm]
                self.alloc(h, s[3], nm)
                self.cur().append(("q", nm, [h], s[3]))
        elif k == "rdecl":
            hs = [["elem", s[1], i] for i in range(s[2])]
            self.regs[s[1]] = s[2]
            for h in hs:
                self.alloc(h, s[3], s[1])
            self.cur().append(("r", s[1], hs, s[3]))
        elif k == "odecl":
            o = s[1]
            self.objs[o] = True
            self.alloc(["field", o, "q"], False, o)
            for i in range(2):
                self.alloc(["felem", o, "r", i], False, o)
            self.cur().append(("obj", o, [], False))
        elif k == "gate":
            self.gate(s[1], s[3], s[4])
        elif k == "cxalias":
            self.alias_reached = True
        elif k == "mstmt":
            self.measure(s[1])
        elif k == "mexpr":
            v = self.measure(s[1])
            self.bits[s[2]] = v
            self.echo.append(str(v))
        elif k == "mecho":
            self.echo.append(str(self.measure(s[1])))
        elif k == "marr":
            reg = s[1][1]
            n = self.regs[reg]
            for i in range(n):
                self.measure(["elem", reg, i])
        elif k == "reset":
            self.reset(s[1])
        elif k == "ifbit":
            self.nested(s[2] if self.bits[s[1]] else s[3])
        elif k == "loop":
            _, reg, n, g, path, angle, iv = s
            for i in range(n):
                self.gate(g, [["elem", reg, i]], angle)
        elif k == "destroy":
            if self.objs.get(s[1]):
                self.release_object(s[1])
        elif k == "block":
            self.nested(s[1])
        elif k == "tloop":
            _, n, nm, g, meas, iv = s
            for i in range(n):
                self.uid += 1
                h = ["var", f"{nm}@{self.uid}"]
                self.alloc(h, True, nm)
                if g:
                    self.gate(g, [h], None)
                if meas:
                    self.measure(h)
                self.record_tracked("qubit " + nm, [h])
                self.live.discard(hkey(h))
        elif k == "thelper":
            self.uid += 1
            v = s[1]
            if v in ("meas", "rand", "unmeas"):
                h = ["var", f"w@{self.uid}"]
                self.alloc(h, True, "w")
                self.gate("x" if v == "meas" else "h", [h], None)
                if v != "unmeas":
                    self.measure(h)
                self.record_tracked("qubit w", [h])
                self.live.discard(hkey(h))
            else:
                hs = [["elem", f"wr@{self.uid}", i] for i in range(2)]
                for h in hs:
                    self.alloc(h, True, "wr")
                if v == "reg":
                    self.gate("x", [hs[1]], None)
                    self.measure(hs[0])
                    self.measure(hs[1])
                else:
                    self.measure(hs[1])
                self.record_tracked("qubit[] wr", hs)
                for h in hs:
                    self.live.discard(hkey(h))
        elif k == "echo":
            pass
        else:
            raise ValueError(k)

    def cur(self):
        return self.scopes[-1]

    def nested(self, stmts):
        self.scopes.append([])
        for s in stmts:
            self.stmt(s)
        self.end_scope(self.scopes.pop())

    def block(self, stmts, top=False):
        self.scopes.append([])
        for s in stmts:
            self.stmt(s)
        self.end_scope(self.scopes.pop())


# ------------------------------------------------------------------ strict OpenQASM 2.0 subset parser

HEADER = 'OPENQASM 2.0;\ninclude "qelib1.inc";\n'
NUM = r"[-+]?(?:\d+\.\d*|\.\d+|\d+)(?:[eE][-+]?\d+)?"
RE_QREG = re.compile(r"qreg q\[(\d+)\];")
RE_CREG = re.compile(r"creg c\[(\d+)\];")
RE_G1 = re.compile(r"(h|x|y|z) q\[(\d+)\];")
RE_ROT = re.compile(r"(rx|ry|rz)\((" + NUM + r")\) q\[(\d+)\];")
RE_CX = re.compile(r"cx q\[(\d+)\], ?q\[(\d+)\];")
RE_MEAS = re.compile(r"measure q\[(\d+)\] -> c\[(\d+)\];")
RE_RESET = re.compile(r"reset q\[(\d+)\];")


def parse_qasm(text):
    """Returns (n, ops) or raises ValueError(reason).  ops: (kind, [indices], angle)."""
    if not text.startswith(HEADER):
        raise ValueError("header is not 'OPENQASM 2.0;' + include \"qelib1.inc\";")
    lines = text[len(HEADER):].split("\n")
    if lines and lines[-1] == "":
        lines.pop()
    if len(lines) < 2:
        raise ValueError("missing qreg/creg")
    m, c = RE_QREG.fullmatch(lines[0]), RE_CREG.fullmatch(lines[1])
    if not m or not c:
        raise ValueError(f"expected one qreg and one creg declaration, got {lines[:2]}")
    n = int(m.group(1))
    if int(c.group(1)) != n:
        raise ValueError("creg size differs from qreg size")
    ops = []
    for ln in lines[2:]:
        mm = RE_G1.fullmatch(ln)
        if mm:
            ops.append((mm.group(1), [int(mm.group(2))], None))
            continue
        mm = RE_ROT.fullmatch(ln)
        if mm:
            ops.append((mm.group(1), [int(mm.group(3))], float(mm.group(2))))
            continue
        mm = RE_CX.fullmatch(ln)
        if mm:
            a, b = int(mm.group(1)), int(mm.group(2))
            if a == b:
                raise ValueError(f"two-qubit gate on identical qubits: {ln}")
            ops.append(("cx", [a, b], None))
            continue
        mm = RE_MEAS.fullmatch(ln)
        if mm:
            if mm.group(1) != mm.group(2):
                raise ValueError(f"measurement into a different classical bit: {ln}")
            ops.append(("measure", [int(mm.group(1))], None))
            continue
        mm = RE_RESET.fullmatch(ln)
        if mm:
            ops.append(("reset", [int(mm.group(1))], None))
            continue
        raise ValueError(f"not an OpenQASM 2.0 statement of the emitted subset: {ln!r}")
    for k, idx, _ in ops:
        for i in idx:
            if i >= n:
                raise ValueError(f"operand q[{i}] out of range for qreg q[{n}]")
    return n, ops


def match_ops(expected, qops):
    """Line-by-line comparison of the expected op sequence (with handles) and the parsed QASM (with indices);
    builds the handle -> index map.  Returns (map, None) or (None, reason)."""
    hmap = {}
    owner = {}
    exp = [e for e in expected if e["kind"] != "alloc"]
    if len(exp) != len(qops):
        return None, f"program performed {len(exp)} quantum operations, QASM lists {len(qops)}"
    for n, (e, (k, idx, ang)) in enumerate(zip(exp, qops)):
        if e["kind"] != k:
            return None, f"operation {n}: program did {e['kind']} on {e['hs']}, QASM has {k} {idx}"
        if len(idx) != len(e["hs"]):
            return None, f"operation {n}: operand count"
        for h, i in zip(e["hs"], idx):
            if e.get("implicit") == "reuse":
                # the handle is (re)bound here: it must take an index no live handle holds
                if i in owner and owner[i] != h and hmap.get(owner[i]) == i and owner[i] in e.get("live", ()):
                    return None, f"operation {n}: re-used index {i} still belongs to live handle {owner[i]}"
                hmap[h] = i
                owner[i] = h
                continue
            if h in hmap:
                if hmap[h] != i:
                    return None, f"operation {n}: handle {h} was q[{hmap[h]}] and is now addressed as q[{i}]"
            else:
                if i in owner and owner[i] != h and hmap.get(owner[i]) == i and owner[i] in e.get("live", ()):
                    return None, f"operation {n}: q[{i}] is shared by live handles {owner[i]} and {h}"
                hmap[h] = i
                owner[i] = h
        # angles are printed with six decimals: the printed value is within 5e-7 of the angle the simulator rotated by
        if e["kind"] in ("rx", "ry", "rz") and abs(ang - e["angle"]) > 6e-7:
            return None, f"operation {n}: printed angle {ang!r} differs from the simulated angle {e['angle']!r}"
    return hmap, None
