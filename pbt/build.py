"""Build the harness binaries from /repo's *current working tree*.

The build directory is keyed by a SHA-256 over every file under /repo/src, the harness
sources and the compiler flags.  The key is recomputed at the start of every check under
a file lock: an edited tree gives a new key and a rebuild, an unchanged tree re-uses the
binaries, so all checks share one build.  /repo is never written to.
"""
import fcntl
import hashlib
import os
import shutil
import subprocess
import sys
import time
from concurrent.futures import ThreadPoolExecutor

VERIF = os.path.dirname(os.path.dirname(os.path.abspath(__file__)))
REPO = os.environ.get("VERIF_REPO", "/repo")
SRC = os.path.join(REPO, "src")
HARNESS = os.path.join(VERIF, "harness")
BUILD_ROOT = os.path.join(VERIF, ".build")

CXX = "clang++"
COMMON = ["-std=gnu++20", "-g", "-O1", "-DBLOCH_VERIF", "-I", SRC, "-fno-omit-frame-pointer"]
# UBSan sub-checks excluded on purpose (DESIGN.md 2.3): UB without observable effect under
# the project's own flags; the properties speak of signals, bad memory accesses and raw
# exceptions, all of which remain visible.
UBSAN = ["-fsanitize=undefined", "-fno-sanitize-recover=undefined",
         "-fno-sanitize=signed-integer-overflow,pointer-overflow,float-cast-overflow"]

LIB_TUS = [
    "bloch/compiler/import/module_loader.cpp",
    "bloch/compiler/lexer/lexer.cpp",
    "bloch/compiler/parser/parser.cpp",
    "bloch/compiler/semantics/built_ins.cpp",
    "bloch/compiler/semantics/semantic_analyser.cpp",
    "bloch/compiler/semantics/type_system.cpp",
    "bloch/runtime/qasm_simulator.cpp",
    "bloch/runtime/runtime_evaluator.cpp",
]
CLI_TUS = ["bloch/cli/cli.cpp", "bloch/update/update_manager.cpp"]

FLAVOURS = {
    # name: (flags, repo TUs, harness TUs -> binaries, link flags)
    "asan": dict(flags=["-fsanitize=address"] + UBSAN, tus=LIB_TUS + CLI_TUS,
                 bins={"verifdrv": ["verifdrv.cpp"]}, link=["-lssl", "-lcrypto", "-lpthread"]),
    "upd": dict(flags=["-fsanitize=address"] + UBSAN, tus=[],
                bins={"verifupd": ["verifupd.cpp"]}, link=["-lssl", "-lcrypto", "-lpthread"]),
    "fuzz": dict(flags=["-fsanitize=fuzzer-no-link,address"] + UBSAN, tus=LIB_TUS,
                 bins={"fuzz_front": ["fuzz_front.cpp"], "fuzz_lex": ["fuzz_lex.cpp"],
                       "fuzz_run": ["fuzz_run.cpp"]},
                 link=["-fsanitize=fuzzer", "-lpthread"]),
    "tsan": dict(flags=["-fsanitize=thread"], tus=LIB_TUS,
                 bins={"tsan_runner": ["tsan_runner.cpp"]}, link=["-lpthread"]),
}
EXTRA_DEFS = {"bloch/update/update_manager.cpp": ["-DCPPHTTPLIB_OPENSSL_SUPPORT"]}


def _hash_tree():
    h = hashlib.sha256()
    for root in (SRC, HARNESS):
        for dp, dns, fns in os.walk(root):
            dns.sort()
            for fn in sorted(fns):
                p = os.path.join(dp, fn)
                h.update(os.path.relpath(p, root).encode())
                h.update(b"\0")
                with open(p, "rb") as f:
                    h.update(f.read())
                h.update(b"\0")
    return h


def tree_key(flavour):
    h = _hash_tree()
    fl = FLAVOURS[flavour]
    h.update(repr((CXX, COMMON, fl["flags"], fl["tus"], sorted(fl["bins"].items()), fl["link"])).encode())
    return h.hexdigest()[:20]


def _run(cmd):
    p = subprocess.run(cmd, stdout=subprocess.PIPE, stderr=subprocess.STDOUT, text=True)
    return p.returncode, p.stdout, cmd


def build(flavour="asan", verbose=False):
    """Return the directory holding the binaries of `flavour` for the current tree."""
    os.makedirs(BUILD_ROOT, exist_ok=True)
    fl = FLAVOURS[flavour]
    lock = open(os.path.join(BUILD_ROOT, f".lock-{flavour}"), "w")
    fcntl.flock(lock, fcntl.LOCK_EX)
    try:
        key = tree_key(flavour)
        out = os.path.join(BUILD_ROOT, f"{flavour}-{key}")
        if os.path.exists(os.path.join(out, ".done")):
            os.utime(out)
            return out
        t0 = time.time()
        shutil.rmtree(out, ignore_errors=True)
        os.makedirs(out)
        jobs = []
        objs = []
        for tu in fl["tus"]:
            o = os.path.join(out, tu.replace("/", "_") + ".o")
            objs.append(o)
            jobs.append([CXX] + COMMON + fl["flags"] + EXTRA_DEFS.get(tu, []) + ["-c", os.path.join(SRC, tu), "-o", o])
        hobjs = {}
        for b, srcs in fl["bins"].items():
            hobjs[b] = []
            for s in srcs:
                sp = os.path.join(HARNESS, s)
                if not os.path.exists(sp):
                    hobjs[b] = None
                    break
                o = os.path.join(out, "h_" + s + ".o")
                hobjs[b].append(o)
                extra = ["-DCPPHTTPLIB_OPENSSL_SUPPORT"] if flavour == "upd" else []
                jobs.append([CXX] + COMMON + fl["flags"] + extra + ["-I", HARNESS, "-c", sp, "-o", o])
        with ThreadPoolExecutor(max_workers=16) as ex:
            results = list(ex.map(_run, jobs))
        for rc, text, cmd in results:
            if rc != 0:
                sys.stderr.write("BUILD FAILED: " + " ".join(cmd) + "\n" + text + "\n")
                raise SystemExit(3)
        links = []
        for b, ho in hobjs.items():
            if ho is None:
                continue
            links.append([CXX] + fl["flags"] + ho + objs + fl["link"] + ["-o", os.path.join(out, b)])
        with ThreadPoolExecutor(max_workers=4) as ex:
            results = list(ex.map(_run, links))
        for rc, text, cmd in results:
            if rc != 0:
                sys.stderr.write("LINK FAILED: " + " ".join(cmd) + "\n" + text + "\n")
                raise SystemExit(3)
        for o in objs + [x for v in hobjs.values() if v for x in v]:
            try:
                os.unlink(o)
            except OSError:
                pass
        open(os.path.join(out, ".done"), "w").write(str(time.time() - t0))
        if verbose:
            print(f"[build] {flavour} {key} in {time.time() - t0:.1f}s", file=sys.stderr)
        _prune(flavour, keep=out)
        return out
    finally:
        fcntl.flock(lock, fcntl.LOCK_UN)
        lock.close()


def _prune(flavour, keep, n=None):
    # parallel mutant runs (tools/mutant_run.sh) set VERIF_KEEP_BUILDS so that they do not evict each other's builds
    n = n or int(os.environ.get("VERIF_KEEP_BUILDS", "2"))
    ds = [os.path.join(BUILD_ROOT, d) for d in os.listdir(BUILD_ROOT) if d.startswith(flavour + "-")]
    ds.sort(key=lambda d: os.path.getmtime(d), reverse=True)
    for d in ds[n:]:
        if d != keep:
            shutil.rmtree(d, ignore_errors=True)


def binary(name, flavour="asan"):
    return os.path.join(build(flavour), name)


if __name__ == "__main__":
    which = sys.argv[1:] or ["asan"]
    if which == ["all"]:
        which = list(FLAVOURS)
    for f in which:
        print(f, build(f, verbose=True))
