"""Independent numpy reference: state vectors with qubit k = bit k of the basis index,
gates as explicit Kronecker products (OpenQASM qelib1 definitions; rotations exp(-i t P/2)),
cx as the permutation |b> -> |b xor (b_c << t)>, projective measurement with forced outcome,
partial trace.  Written from the property statements / qelib1, not from the C++."""
import cmath
import math

import numpy as np

I2 = np.eye(2, dtype=complex)
X = np.array([[0, 1], [1, 0]], dtype=complex)
Y = np.array([[0, -1j], [1j, 0]], dtype=complex)
Z = np.array([[1, 0], [0, -1]], dtype=complex)
H = np.array([[1, 1], [1, -1]], dtype=complex) / math.sqrt(2)


def rot(P, t):
    return math.cos(t / 2) * I2 - 1j * math.sin(t / 2) * P


def gate_matrix(name, theta=None):
    if name == "h":
        return H
    if name == "x":
        return X
    if name == "y":
        return Y
    if name == "z":
        return Z
    if name == "rx":
        return rot(X, theta)
    if name == "ry":
        return rot(Y, theta)
    if name == "rz":
        return rot(Z, theta)
    raise ValueError(name)


def full_1q(n, q, U):
    """U on qubit q tensored with identity elsewhere, as an explicit 2^n x 2^n Kronecker product.
    Index bit k = qubit k, so qubit n-1 is the leftmost Kronecker factor."""
    M = np.array([[1]], dtype=complex)
    for k in range(n - 1, -1, -1):
        M = np.kron(M, U if k == q else I2)
    return M


def full_cx(n, c, t):
    N = 1 << n
    M = np.zeros((N, N), dtype=complex)
    for b in range(N):
        M[b ^ (((b >> c) & 1) << t), b] = 1
    return M


def full_gate(n, op):
    name = op[0]
    if name == "cx":
        return full_cx(n, op[1], op[2])
    return full_1q(n, op[1], gate_matrix(name, op[2] if len(op) > 2 else None))


def zero_state(n):
    s = np.zeros(1 << n, dtype=complex)
    s[0] = 1
    return s


def apply(state, op):
    """Fast path used for long histories: same definitions as full_gate (tested equal in selftest())."""
    n = int(round(math.log2(len(state))))
    if op[0] == "cx":
        c, t = op[1], op[2]
        idx = np.arange(len(state))
        out = np.empty_like(state)
        out[idx ^ (((idx >> c) & 1) << t)] = state
        return out
    U = gate_matrix(op[0], op[2] if len(op) > 2 else None)
    q = op[1]
    psi = state.reshape((1 << (n - 1 - q), 2, 1 << q))  # axis 1 = bit q of the index
    return np.einsum("ab,ibj->iaj", U, psi).reshape(-1)


def selftest():
    rng = np.random.default_rng(1)
    for n in range(1, 6):
        for _ in range(20):
            v = rng.normal(size=1 << n) + 1j * rng.normal(size=1 << n)
            v /= np.linalg.norm(v)
            ops = [("h", 0), ("y", n - 1), ("rz", n // 2, 0.7), ("rx", 0, -1.3), ("ry", n - 1, 2.2)]
            if n >= 2:
                ops += [("cx", 0, n - 1), ("cx", n - 1, 0)]
            for op in ops:
                assert np.allclose(apply(v, op), full_gate(n, op) @ v, atol=1e-12), (n, op)
    return True


def prob1(state, q):
    idx = np.arange(len(state))
    return float(np.sum(np.abs(state[(idx >> q) & 1 == 1]) ** 2))


def project(state, q, r):
    """Normalised projection onto qubit q = r; returns (state, probability)."""
    idx = np.arange(len(state))
    mask = ((idx >> q) & 1) == r
    p = float(np.sum(np.abs(state[mask]) ** 2))
    out = np.where(mask, state, 0)
    if p > 0:
        out = out / math.sqrt(p)
    return out, p


def reset_branch(state, q, r):
    """Reset via branch r: project onto q=r, then flip q to 0 if r == 1."""
    out, p = project(state, q, r)
    if r == 1:
        n = int(round(math.log2(len(state))))
        out = full_1q(n, q, X) @ out
    return out, p


def extend(state):
    """Allocate one more qubit (new most significant bit) in |0>."""
    return np.concatenate([state, np.zeros(len(state), dtype=complex)])


def fidelity(a, b):
    return abs(np.vdot(a, b))


def equal_up_to_phase(a, b, tol=1e-9):
    if len(a) != len(b):
        return False
    na, nb = np.linalg.norm(a), np.linalg.norm(b)
    if abs(na - nb) > tol:
        return False
    k = int(np.argmax(np.abs(b)))
    if abs(b[k]) < 1e-300:
        return np.allclose(a, b, atol=tol)
    ph = a[k] / b[k]
    if abs(abs(ph) - 1) > 1e-6:
        return False
    return bool(np.max(np.abs(a - ph * b)) <= tol)


def reduced_density(state, keep):
    """Density matrix of qubits in `keep` (list, ascending -> bit order of the result)."""
    n = int(round(math.log2(len(state))))
    keep = list(keep)
    rest = [k for k in range(n) if k not in keep]
    dk, dr = 1 << len(keep), 1 << len(rest)
    M = np.zeros((dk, dr), dtype=complex)
    for b in range(len(state)):
        i = sum(((b >> q) & 1) << j for j, q in enumerate(keep))
        j = sum(((b >> q) & 1) << jj for jj, q in enumerate(rest))
        M[i, j] = state[b]
    return M @ M.conj().T


def from_json(st):
    return np.array([complex(a, b) for a, b in st], dtype=complex)


def schmidt_entangled(state, q, tol=1e-9):
    """True if qubit q is entangled with the rest (reduced state of q is mixed)."""
    rho = reduced_density(state, [q])
    purity = float(np.real(np.trace(rho @ rho)))
    return purity < 1 - tol
