"""Talks to `verifdrv sim`: op scripts on bare QasmSimulator instances."""
from hypothesis import strategies as st

from . import ref_quantum as rq
from .common import run_proc


def op_line(op):
    name = op[0]
    if name in ("rx", "ry", "rz"):
        return f"{name} {op[1]} {float(op[2]).hex()}"
    return " ".join(str(x) for x in op)


def script(ops):
    return "\n".join(op_line(o) for o in ops) + "\n"


def run_script(drv, scratch, ops, timeout=60, name="sim.txt"):
    p = scratch.write(name, script(ops))
    r = run_proc([drv, "sim", p], timeout=timeout)
    return r


math_pi = 3.141592653589793
SPECIAL_ANGLES = [0.0, math_pi, -math_pi, math_pi / 2, -math_pi / 2, 2 * math_pi, 1e-9, 0.1, -2.5, 3.0, 100.25,
                  4 * math_pi, math_pi / 4]

angle = st.one_of(st.sampled_from(SPECIAL_ANGLES),
                  st.floats(min_value=-4 * math_pi, max_value=4 * math_pi, allow_nan=False, allow_infinity=False))


def gate_op(n):
    """Strategy for one gate on an n-qubit register."""
    q = st.integers(0, n - 1)
    one = st.tuples(st.sampled_from(["h", "x", "y", "z"]), q)
    rot = st.tuples(st.sampled_from(["rx", "ry", "rz"]), q, angle)
    if n >= 2:
        cx = st.tuples(st.just("cx"), q, q).filter(lambda t: t[1] != t[2])
        return st.one_of(one, rot, cx, cx)
    return st.one_of(one, rot)


def ref_run(ops, n):
    s = rq.zero_state(n)
    for op in ops:
        s = rq.apply(s, op)
    return s
