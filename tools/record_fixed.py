#!/usr/bin/env python3
"""usage: tools/record_fixed.py <commit> <ID> <key> <replay.json> "<what failed>"

Turns a replay file written by a check (run against the tree with the fix reverted) into a committed reproducer
findings/<ID>/<key>.json and appends the matching 'fixed' entry to known_findings.json.  Never run by a check."""
import json
import os
import sys

V = os.path.dirname(os.path.dirname(os.path.abspath(__file__)))
commit, pid, key, replay, what = sys.argv[1:6]
case = json.load(open(replay))["case"]
os.makedirs(os.path.join(V, "findings", pid), exist_ok=True)
rel = f"findings/{pid}/{key}.json"
json.dump({"property": pid, "case": case}, open(os.path.join(V, rel), "w"), indent=1)
kf = os.path.join(V, "known_findings.json")
k = json.load(open(kf))
k["findings"] = [e for e in k["findings"] if not (e["property"] == pid and e["key"] == key)]
k["findings"].append({"property": pid, "key": key, "status": "fixed", "commit": commit, "what": what,
                      "line": f"fixed: property={pid} {commit} {what}", "reproducer": rel})
json.dump(k, open(kf, "w"), indent=1)
print("recorded", pid, key, commit)
