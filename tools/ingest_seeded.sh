#!/bin/sh
# usage: tools/ingest_seeded.sh <PROP> <round-suffix> [CHECK-ID...]
# Copies a sub-agent's deliverables (/tmp/agent-<PROP>/SEEDED) to seeded/<PROP>-<suffix>, removes the agent's worktree,
# validates the change (build, 288 tests, demo on both trees) and runs the named checks' quick tier against it.
set -u
P=$1; S=$2; shift 2
D=/verif/seeded/$P-$S
[ -d /tmp/agent-$P/SEEDED ] || { echo "no deliverables for $P"; exit 2; }
mkdir -p "$D"
cp -r /tmp/agent-$P/SEEDED/patch.diff /tmp/agent-$P/SEEDED/demo /tmp/agent-$P/SEEDED/notes.md "$D/" 2>/dev/null
git -C /repo worktree remove --force /tmp/agent-$P; rm -rf /tmp/agent-$P
cd /verif
tools/validate_seeded.sh "seeded/$P-$S" > "/tmp/t1/val_$P-$S.txt" 2>&1
cat "/tmp/t1/val_$P-$S.txt"
[ $# -eq 0 ] && set -- "$P"
KEEP_REPLAY=/tmp/t1/keep_$P-$S tools/mutant_run.sh "$D/patch.diff" "$@" | tee "/tmp/t1/mut_$P-$S.txt"
