#!/usr/bin/env python3
"""Prints the final status table (markdown) from evidence/*.json, known_findings.json and seeded/*/meta.json."""
import glob
import json
import os

V = os.path.dirname(os.path.dirname(os.path.abspath(__file__)))
kf = json.load(open(os.path.join(V, "known_findings.json")))["findings"]
seeded = {}
for m in sorted(glob.glob(os.path.join(V, "seeded", "*", "meta.json"))):
    d = json.load(open(m))
    seeded.setdefault(d["id"][:3], []).append(d["id"])
print("| id | quick tier: evaluations / distinct non-trivial / wall | fixed findings replayed | known findings | seeded changes caught |")
print("| --- | --- | --- | --- | --- |")
for i in range(1, 21):
    pid = f"C{i:02d}"
    e = json.load(open(os.path.join(V, "evidence", pid + ".json")))
    c = e["coverage"]
    fixed = [x["key"] for x in kf if x["property"] == pid and x["status"] == "fixed"]
    known = [x["key"] for x in kf if x["property"] == pid and x["status"] == "known"]
    print(f"| {pid} | {c['evaluations']} / {c['distinct_nontrivial']} / {e['wall_s']:.0f} s ({e['tier']}, seed {e['seed']}) | {len(fixed)} | "
          f"{', '.join(known) or '-'} | {', '.join(seeded.get(pid, [])) or '-'} |")
