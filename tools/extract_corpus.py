#!/usr/bin/env python3
"""Extracts Bloch programs embedded in /repo/tests/*.cpp and /repo/examples into corpus/seeds (committed)."""
import glob, hashlib, os, re, sys
OUT = os.path.join(os.path.dirname(os.path.dirname(os.path.abspath(__file__))), "corpus", "seeds")
os.makedirs(OUT, exist_ok=True)
def unescape(s):
    return bytes(s, "latin-1").decode("unicode_escape")
progs = []
for f in sorted(glob.glob("/repo/tests/*.cpp")):
    txt = open(f, encoding="latin-1").read()
    for m in re.finditer(r'R"\((.*?)\)"', txt, re.S):
        progs.append(m.group(1))
    txt2 = re.sub(r'R"\(.*?\)"', '""', txt, flags=re.S)
    # adjacent ordinary string literals are concatenated
    for m in re.finditer(r'((?:"(?:[^"\\\n]|\\.)*"\s*)+)', txt2):
        parts = re.findall(r'"((?:[^"\\\n]|\\.)*)"', m.group(1))
        s = "".join(unescape(p) for p in parts)
        progs.append(s)
for f in sorted(glob.glob("/repo/examples/**/*.bloch", recursive=True)) + sorted(glob.glob("/repo/library/**/*.bloch", recursive=True)):
    progs.append(open(f, encoding="latin-1").read())
seen = set(); n = 0
for p in progs:
    if len(p) < 8 or len(p) > 4000: continue
    if not re.search(r"\b(function|class|qubit|int|echo|import|package)\b", p) or ";" not in p and "{" not in p: continue
    h = hashlib.sha1(p.encode("latin-1", "replace")).hexdigest()[:12]
    if h in seen: continue
    seen.add(h); n += 1
    open(os.path.join(OUT, h + ".bloch"), "w", encoding="latin-1", errors="replace").write(p)
print(n, "seed programs")
