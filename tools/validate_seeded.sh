#!/bin/sh
# usage: tools/validate_seeded.sh <seeded-dir>   (expects patch.diff and demo/run.sh in it)
# Confirms in a scratch worktree (outside /repo and /verif) that the patch applies and builds, that the 288 existing
# tests still pass with it, and that the demonstration passes on the original tree and fails with the patch.
set -u
D=$(cd "$1" && pwd)
W=$(mktemp -d /tmp/bloch-seedchk-XXXXXX)
git -C /repo worktree add -q --detach "$W" HEAD || exit 2
build() { cmake -G Ninja -S "$W" -B "$1" -DCMAKE_BUILD_TYPE=RelWithDebInfo >/dev/null 2>&1 && cmake --build "$1" -j8 >/dev/null 2>&1; }
build "$W/_b0" || { echo "baseline build failed"; }
cp -r "$D/demo" "$W/demo_run"
( cd "$W/demo_run" && BLOCH_NO_UPDATE_CHECK=1 bash ./run.sh "$W/_b0/bin/bloch" >/dev/null 2>&1 ); echo "demo on original tree: exit $? (expected 0)"
git -C "$W" apply "$D/patch.diff" || { echo "PATCH DOES NOT APPLY"; git -C /repo worktree remove --force "$W"; exit 1; }
build "$W/_b1" || { echo "patched build FAILED"; }
( cd "$W/_b1" && ./bin/bloch_tests 2>&1 | tail -1 )
rm -rf "$W/demo_run"; cp -r "$D/demo" "$W/demo_run"
( cd "$W/demo_run" && BLOCH_NO_UPDATE_CHECK=1 bash ./run.sh "$W/_b1/bin/bloch" >/dev/null 2>&1 ); echo "demo with the patch: exit $? (expected 1)"
git -C /repo worktree remove --force "$W"; rm -rf "$W"
