#!/bin/sh
# usage: tools/mutant_run.sh <patch.diff | revert:<commit> > <CHECK-ID>...
# Applies a change to a scratch worktree of /repo (outside /repo and /verif), runs the given checks'
# quick tier against it (VERIF_REPO / VERIF_OUT redirect build input and evidence/replay output),
# prints one line per check, and removes the worktree and its output again.
set -u
CH=$1; shift
W=$(mktemp -d /tmp/bloch-mut-XXXXXX)
OUT=$(mktemp -d /tmp/bloch-mutout-XXXXXX)
git -C /repo worktree add -q --detach "$W" HEAD || exit 2
case "$CH" in
  revert:*) git -C "$W" revert --no-edit -n "${CH#revert:}" >/dev/null 2>&1 || { echo "revert failed"; git -C /repo worktree remove --force "$W"; exit 2; } ;;
  none) ;;
  *) git -C "$W" apply "$CH" || { echo "patch does not apply"; git -C /repo worktree remove --force "$W"; exit 2; } ;;
esac
cd /verif
for c in "$@"; do
  s=$(date +%s)
  VERIF_REPO="$W" VERIF_OUT="$OUT" ${VERIF_SEED:+VERIF_SEED=$VERIF_SEED} ./check "$c" quick > "$OUT/$c.log" 2>&1
  rc=$?
  echo "$c rc=$rc $(( $(date +%s) - s ))s violations=$(grep -c '^VIOLATION' "$OUT/$c.log") :: $(grep -A1 '^VIOLATION' "$OUT/$c.log" | grep why | head -1 | cut -c1-260)"
done
if [ -n "${KEEP_REPLAY:-}" ]; then
  mkdir -p "$KEEP_REPLAY"
  for c in "$@"; do
    f=$(ls "$OUT/replays/$c/"*.json 2>/dev/null | head -1)
    [ -n "$f" ] && cp "$f" "$KEEP_REPLAY/$c.json"
    cp "$OUT/$c.log" "$KEEP_REPLAY/$c.log" 2>/dev/null
  done
fi
git -C /repo worktree remove --force "$W"
rm -rf "$OUT" "$W"
# drop the build directories of the scratch tree (keep the newest per flavour = the real tree is rebuilt on demand)
