// libFuzzer target for C15 (thorough tier): the source-offset oracle in C++.
#include <cstdint>
#include <string>
#include <vector>

#include "bloch/compiler/lexer/lexer.hpp"
#include "bloch/support/error/bloch_error.hpp"
#include "fuzz_common.hpp"

using namespace bloch::compiler;
using bloch::support::BlochError;
using bloch::support::ErrorCategory;

static bool trivia(const std::string& s, size_t a, size_t b) {
    size_t i = a;
    while (i < b) {
        unsigned char c = static_cast<unsigned char>(s[i]);
        if (c == ' ' || c == '\t' || c == '\n' || c == '\r' || c == '\f' || c == '\v') {
            ++i;
        } else if (c == '/' && i + 1 < b && s[i + 1] == '/') {
            while (i < b && s[i] != '\n') ++i;
        } else {
            return false;
        }
    }
    return true;
}

extern "C" int LLVMFuzzerTestOneInput(const uint8_t* data, size_t size) {
    if (size > 2048)
        return 0;
    std::string src(reinterpret_cast<const char*>(data), size);
    std::vector<size_t> starts{0};
    for (size_t i = 0; i < src.size(); ++i)
        if (src[i] == '\n')
            starts.push_back(i + 1);
    std::vector<Token> toks;
    try {
        Lexer lx(src);
        toks = lx.tokenize();
    } catch (const BlochError& e) {
        if (e.category != ErrorCategory::Lexical)
            verifFail("lexer raised a non-Lexical diagnostic", e.what());
        if (e.line < 1 || static_cast<size_t>(e.line) > starts.size())
            verifFail("Lexical diagnostic line outside the source", e.what());
        return 0;
    } catch (const std::exception& e) {
        verifFail("raw exception from the lexer", e.what());
    }
    if (toks.empty() || toks.back().type != TokenType::Eof)
        verifFail("token list does not end with Eof", "");
    size_t pos = 0;
    for (size_t k = 0; k + 1 < toks.size(); ++k) {
        const Token& t = toks[k];
        if (t.line < 1 || static_cast<size_t>(t.line) > starts.size() || t.column < 1)
            verifFail("token at impossible position", t.value);
        size_t off = starts[t.line - 1] + static_cast<size_t>(t.column - 1);
        if (t.value.empty() || off + t.value.size() > src.size() ||
            src.compare(off, t.value.size(), t.value) != 0)
            verifFail("token text is not at its reported position", t.value);
        if (off < pos)
            verifFail("tokens overlap", t.value);
        if (!trivia(src, pos, off))
            verifFail("gap between tokens is not whitespace/comments", t.value);
        pos = off + t.value.size();
    }
    if (!trivia(src, pos, src.size()))
        verifFail("text after the last token is not whitespace/comments", "");
    return 0;
}
