// verifupd — reaches the file-local helpers of update_manager.cpp by compiling it into this
// translation unit. Line protocol on stdin (strings hex-encoded), one result line per command.
// Observation only; the oracle is pbt/checks/c20.py.
#include "bloch/update/update_manager.cpp"  // NOLINT(bugprone-suspicious-include)

#include <cstdio>
#include <typeinfo>

namespace {
    std::string unhex(const std::string& h) {
        std::string out;
        for (size_t i = 0; i + 1 < h.size(); i += 2)
            out.push_back(static_cast<char>(std::stoi(h.substr(i, 2), nullptr, 16)));
        return out;
    }
    std::string hex(const std::string& s) {
        static const char* d = "0123456789abcdef";
        std::string out;
        for (unsigned char c : s) {
            out.push_back(d[c >> 4]);
            out.push_back(d[c & 15]);
        }
        return out.empty() ? "-" : out;
    }
    std::string arg(std::istringstream& in) {
        std::string a;
        in >> a;
        return a == "-" ? std::string() : unhex(a);
    }
}  // namespace

int main() {
    using namespace bloch::update;
    std::string line;
    while (std::getline(std::cin, line)) {
        std::istringstream in(line);
        std::string cmd;
        in >> cmd;
        std::ostringstream capture;
        auto* old = std::cout.rdbuf(capture.rdbuf());
        std::ostringstream res;
        try {
            if (cmd == "semver") {
                auto s = parseSemVer(arg(in));
                res << "OK " << (s.valid ? 1 : 0) << " " << s.major << " " << s.minor << " " << s.patch;
            } else if (cmd == "pair") {
                std::string cur = arg(in), lat = arg(in);
                auto c = parseSemVer(cur);
                auto l = parseSemVer(lat);
                res << "OK " << compareSemVer(c, l) << " " << (hasLatest(cur, lat) ? 1 : 0) << " "
                    << changeLabel(c, l);
            } else if (cmd == "checksum") {
                std::string content = arg(in), asset = arg(in);
                auto r = parseChecksum(content, asset);
                res << "OK " << (r ? "1 " + hex(*r) : std::string("0 -"));
            } else if (cmd == "notice") {
                // notice <now_sec> <lastNotified_sec> <latest> <current>
                long long now = 0, last = 0;
                in >> now >> last;
                std::string lat = arg(in), cur = arg(in);
                UpdateCache cache = emptyCache();
                cache.lastNotified = Clock::time_point(std::chrono::seconds(last));
                bool printed = maybePrintNotice(lat, cur, Clock::time_point(std::chrono::seconds(now)), cache);
                res << "OK " << (printed ? 1 : 0) << " "
                    << std::chrono::duration_cast<std::chrono::seconds>(cache.lastNotified.time_since_epoch()).count();
            } else if (cmd == "expired") {
                long long tp = 0, now = 0;
                in >> tp >> now;
                res << "OK "
                    << (hasExpired(Clock::time_point(std::chrono::seconds(tp)),
                                   Clock::time_point(std::chrono::seconds(now)))
                            ? 1
                            : 0);
            } else if (cmd == "setenv") {
                std::string k, v;
                in >> k >> v;
                setenv(k.c_str(), v.c_str(), 1);
                res << "OK";
            } else if (cmd == "unsetenv") {
                std::string k;
                in >> k;
                unsetenv(k.c_str());
                res << "OK";
            } else if (cmd == "skip") {
                res << "OK " << (shouldSkipChecks() ? 1 : 0);
            } else if (cmd == "invoke") {
                // the public entry point, against the cache file under $XDG_CACHE_HOME
                checkForUpdatesIfDue(arg(in));
                res << "OK";
            } else if (cmd == "savecache") {
                long long checked = 0, notified = 0;
                in >> checked >> notified;
                UpdateCache c = emptyCache();
                c.latestVersion = arg(in);
                c.lastChecked = Clock::time_point(std::chrono::seconds(checked));
                c.lastNotified = Clock::time_point(std::chrono::seconds(notified));
                saveCache(c);
                res << "OK";
            } else if (cmd == "loadcache") {
                auto c = loadCache();
                if (!c)
                    res << "OK 0";
                else
                    res << "OK 1 "
                        << std::chrono::duration_cast<std::chrono::seconds>(c->lastChecked.time_since_epoch()).count()
                        << " "
                        << std::chrono::duration_cast<std::chrono::seconds>(c->lastNotified.time_since_epoch()).count()
                        << " " << hex(c->latestVersion);
            } else if (cmd == "nowsec") {
                res << "OK "
                    << std::chrono::duration_cast<std::chrono::seconds>(Clock::now().time_since_epoch()).count();
            } else {
                res << "BADCMD";
            }
        } catch (const std::exception& e) {
            res.str("");
            res << "EXC " << typeid(e).name() << " " << hex(e.what());
        }
        std::cout.rdbuf(old);
        std::cout << res.str() << " | " << hex(capture.str()) << std::endl;
    }
    return 0;
}
