#!/bin/sh
# Builds /repo's current working tree with the verification guard OFF (plain project build)
# in a scratch directory outside /repo and /verif, runs the project's own test suite
# (ctest, then the test binary itself for the per-test lines), and removes the scratch
# directory again. Exit 0 iff ctest passes and the binary reports 0 failed.
SRC=${1:-/repo}
B=$(mktemp -d /tmp/bloch-baseline-XXXXXX)
trap 'rm -rf "$B"' EXIT
cmake -G Ninja -S "$SRC" -B "$B" -DCMAKE_BUILD_TYPE=RelWithDebInfo >"$B/configure.log" 2>&1 || { cat "$B/configure.log"; exit 3; }
cmake --build "$B" -j16 >"$B/build.log" 2>&1 || { tail -50 "$B/build.log"; exit 3; }
ctest --test-dir "$B" -j8 --timeout 900 --output-junit "$B/junit.xml" >"$B/ctest.log" 2>&1
RC=$?
tail -4 "$B/ctest.log"
(cd "$B" && ./bin/bloch_tests >"$B/tests.log" 2>&1)
RC2=$?
grep -c '^\[PASS\]' "$B/tests.log" | sed 's/^/passed: /'
grep '^\[FAIL\]' "$B/tests.log"
tail -1 "$B/tests.log"
[ $RC -eq 0 ] && [ $RC2 -eq 0 ]
