// libFuzzer target for C13: the front end is total. The semantic oracle is inside the target:
// any input must either be accepted or stop with exactly one BlochError of category Lexical,
// Parse or Semantic; no other exception type; afterwards the SAME analyser object must still
// accept a fixed good program and reject a fixed bad one. ASan/UBSan make bad memory accesses
// visible; libFuzzer's -timeout catches hangs.
#include <unistd.h>

#include <cstdint>
#include <filesystem>
#include <fstream>
#include <string>
#include <typeinfo>

#include "bloch/compiler/import/module_loader.hpp"
#include "bloch/compiler/lexer/lexer.hpp"
#include "bloch/compiler/parser/parser.hpp"
#include "bloch/compiler/semantics/semantic_analyser.hpp"
#include "bloch/support/error/bloch_error.hpp"
#include "fuzz_common.hpp"

using namespace bloch::compiler;
using bloch::support::BlochError;
using bloch::support::ErrorCategory;

static const char* kGood = "function main() -> void { int x = 1; echo(x); }";
static const char* kBad = "function main() -> void { int x = 1; x = \"s\"; }";

static bool frontCategory(ErrorCategory c) {
    return c == ErrorCategory::Lexical || c == ErrorCategory::Parse || c == ErrorCategory::Semantic;
}

static void reuse(SemanticAnalyser& an) {
    try {
        Lexer lx(kGood);
        Parser ps(lx.tokenize());
        auto p = ps.parse();
        an.analyse(*p);
    } catch (const std::exception& e) {
        verifFail("analyser unusable after a previous program (good program rejected)", e.what());
    }
    bool rejected = false;
    try {
        Lexer lx(kBad);
        Parser ps(lx.tokenize());
        auto p = ps.parse();
        an.analyse(*p);
    } catch (const BlochError& e) {
        rejected = e.category == ErrorCategory::Semantic;
    } catch (const std::exception& e) {
        verifFail("analyser unusable after a previous program (raw exception)", e.what());
    }
    if (!rejected)
        verifFail("analyser unusable after a previous program", "bad program accepted");
}

static std::string scratchFile() {
    static std::string path;
    if (path.empty()) {
        std::string dir = "/dev/shm/bverif-fuzz-" + std::to_string(getpid());
        std::filesystem::create_directories(dir);
        path = dir + "/in.bloch";
    }
    return path;
}

extern "C" int LLVMFuzzerTestOneInput(const uint8_t* data, size_t size) {
    if (size > 4096 || !nestingWithin(data, size, 64))
        return 0;
    std::string src(reinterpret_cast<const char*>(data), size);
    SemanticAnalyser an;
    try {
        Lexer lx(src);
        Parser ps(lx.tokenize());
        auto prog = ps.parse();
        an.analyse(*prog);
    } catch (const BlochError& e) {
        if (!frontCategory(e.category))
            verifFail("front end raised a diagnostic of a non-front-end category", e.what());
    } catch (const std::exception& e) {
        verifFail((std::string("raw exception from lexer/parser/analyser: ") + typeid(e).name()).c_str(),
                  e.what());
    }
    reuse(an);

    // loader path (file on a RAM disk): import loading + @shots handling
    {
        std::ofstream out(scratchFile(), std::ios::binary | std::ios::trunc);
        out.write(src.data(), static_cast<std::streamsize>(src.size()));
    }
    SemanticAnalyser an2;
    try {
        ModuleLoader loader({});
        auto prog = loader.load(scratchFile());
        an2.analyse(*prog);
    } catch (const BlochError& e) {
        if (!frontCategory(e.category))
            verifFail("loader path raised a diagnostic of a non-front-end category", e.what());
    } catch (const std::exception& e) {
        verifFail((std::string("raw exception from the loader path: ") + typeid(e).name()).c_str(),
                  e.what());
    }
    reuse(an2);
    return 0;
}
