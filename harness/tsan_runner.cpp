// tsan_runner — C11 race check: runs a program with the REAL 50 ms collector timer thread (no
// schedule hook) under ThreadSanitizer, normally or up to a runtime error, then verifies that
// the timer thread is gone once the evaluator has been destroyed.
#include <dirent.h>

#include <cstdio>
#include <iostream>
#include <string>
#include <thread>

#include "bloch/compiler/import/module_loader.hpp"
#include "bloch/compiler/semantics/semantic_analyser.hpp"
#include "bloch/runtime/runtime_evaluator.hpp"
#include "bloch/support/error/bloch_error.hpp"

static int threadCount() {
    int n = 0;
    if (DIR* d = opendir("/proc/self/task")) {
        while (dirent* e = readdir(d))
            if (e->d_name[0] != '.')
                ++n;
        closedir(d);
    }
    return n;
}

int main(int argc, char** argv) {
    if (argc < 2)
        return 2;
    using namespace bloch;
    std::unique_ptr<compiler::Program> program;
    try {
        compiler::ModuleLoader loader({});
        program = loader.load(argv[1]);
        compiler::SemanticAnalyser an;
        an.analyse(*program);
    } catch (const std::exception& e) {
        std::cout << "FRONT " << e.what() << std::endl;
        return 3;
    }
    int shots = argc > 2 ? std::atoi(argv[2]) : 1;
    // the sanitizer runtime may own a background thread of its own: compare against the count before any evaluator exists
    // (it is started lazily with the first thread the program creates, so create and join one first)
    std::thread([] {}).join();
    const int baseline = threadCount();
    for (int s = 0; s < shots; ++s) {
        bool started = false;
        try {
            runtime::RuntimeEvaluator ev(true);
            try {
                ev.execute(*program);
                std::cout << "STATUS ok" << std::endl;
            } catch (const support::BlochError& e) {
                std::cout << "STATUS error" << std::endl;
            }
            started = ev.gcThreadStartedForTest();
        } catch (const std::exception& e) {
            std::cout << "TEARDOWN-EXC " << e.what() << std::endl;
        }
        std::cout << "GCTHREAD " << (started ? 1 : 0) << " EXTRA-THREADS-AFTER " << (threadCount() - baseline) << std::endl;
    }
    return 0;
}
