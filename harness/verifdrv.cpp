// verifdrv — observation-only driver for the bloch verification harness.
// It executes the code under test (built from /repo/src with -DBLOCH_VERIF and
// sanitizers) and prints what it saw as JSON lines. No oracle lives here; the
// Python side (pbt/) decides. One short-lived process per case.
//
// Any exception that is not a BlochError is reported as {"rawexc":...}; signals and
// sanitizer aborts are left alone so the parent sees the wait status.

#include <sys/stat.h>
#include <unistd.h>

#include <cmath>
#include <cstdio>
#include <cstdlib>
#include <cstring>
#include <filesystem>
#include <fstream>
#include <iostream>
#include <map>
#include <memory>
#include <sstream>
#include <string>
#include <typeinfo>
#include <vector>

#include "bloch/cli/cli.hpp"
#include "bloch/compiler/ast/ast.hpp"
#include "bloch/compiler/import/module_loader.hpp"
#include "bloch/compiler/lexer/lexer.hpp"
#include "bloch/compiler/parser/parser.hpp"
#include "bloch/compiler/semantics/semantic_analyser.hpp"
#include "bloch/runtime/qasm_simulator.hpp"
#include "bloch/runtime/runtime_evaluator.hpp"
#include "bloch/support/error/bloch_error.hpp"

using namespace bloch::compiler;
using bloch::runtime::QasmSimulator;
using bloch::runtime::RuntimeEvaluator;
using bloch::support::BlochError;
using bloch::support::ErrorCategory;

namespace {

    std::string jstr(const std::string& s) {
        std::string o = "\"";
        char buf[8];
        for (unsigned char c : s) {
            switch (c) {
                case '"':
                    o += "\\\"";
                    break;
                case '\\':
                    o += "\\\\";
                    break;
                case '\n':
                    o += "\\n";
                    break;
                case '\r':
                    o += "\\r";
                    break;
                case '\t':
                    o += "\\t";
                    break;
                default:
                    if (c < 0x20 || c >= 0x7f) {
                        // bytes are transported as latin-1 code points
                        snprintf(buf, sizeof buf, "\\u%04x", c);
                        o += buf;
                    } else {
                        o += static_cast<char>(c);
                    }
            }
        }
        o += "\"";
        return o;
    }

    std::string readFile(const std::string& path) {
        std::ifstream in(path, std::ios::binary);
        std::ostringstream ss;
        ss << in.rdbuf();
        return ss.str();
    }

    const char* catName(ErrorCategory c) {
        switch (c) {
            case ErrorCategory::Lexical:
                return "Lexical";
            case ErrorCategory::Parse:
                return "Parse";
            case ErrorCategory::Semantic:
                return "Semantic";
            case ErrorCategory::Runtime:
                return "Runtime";
            default:
                return "Generic";
        }
    }

    std::string stripAnsi(const std::string& s) {
        std::string o;
        for (size_t i = 0; i < s.size(); ++i) {
            if (s[i] == '\033') {
                while (i < s.size() && s[i] != 'm') ++i;
                continue;
            }
            o += s[i];
        }
        return o;
    }

    std::string errJson(const BlochError& e) {
        std::ostringstream o;
        o << "\"ok\":false,\"cat\":\"" << catName(e.category) << "\",\"line\":" << e.line
          << ",\"col\":" << e.column << ",\"msg\":" << jstr(stripAnsi(e.what()));
        return o.str();
    }

    std::string rawJson(const std::exception& e) {
        std::ostringstream o;
        o << "\"ok\":false,\"rawexc\":" << jstr(typeid(e).name()) << ",\"what\":" << jstr(e.what());
        return o.str();
    }

    const char* tokName(TokenType t);

    // ---------------------------------------------------------------- AST dump
    struct Dumper {
        std::ostringstream o;
        bool positions = false;

        void type(Type* t) {
            if (!t) {
                o << "_";
                return;
            }
            if (auto p = dynamic_cast<PrimitiveType*>(t)) {
                o << p->name;
            } else if (auto n = dynamic_cast<NamedType*>(t)) {
                o << "(named ";
                for (size_t i = 0; i < n->nameParts.size(); ++i) o << (i ? "." : "") << n->nameParts[i];
                o << (n->hasTypeArgumentList ? " <" : " [");
                for (size_t i = 0; i < n->typeArguments.size(); ++i) {
                    if (i)
                        o << " ";
                    type(n->typeArguments[i].get());
                }
                o << (n->hasTypeArgumentList ? ">)" : "])");
            } else if (auto a = dynamic_cast<ArrayType*>(t)) {
                o << "(array ";
                type(a->elementType.get());
                o << " " << a->size << " ";
                expr(a->sizeExpression.get());
                o << ")";
            } else if (dynamic_cast<VoidType*>(t)) {
                o << "void";
            } else {
                o << "(?type)";
            }
        }

        void annotations(const std::vector<std::unique_ptr<AnnotationNode>>& as) {
            o << "[";
            for (size_t i = 0; i < as.size(); ++i) {
                if (i)
                    o << " ";
                o << "@" << as[i]->name;
                if (!as[i]->value.empty())
                    o << "=" << as[i]->value;
            }
            o << "]";
        }

        void expr(Expression* e) {
            if (!e) {
                o << "_";
                return;
            }
            if (auto b = dynamic_cast<BinaryExpression*>(e)) {
                o << "(bin " << b->op << " ";
                expr(b->left.get());
                o << " ";
                expr(b->right.get());
                o << ")";
            } else if (auto u = dynamic_cast<UnaryExpression*>(e)) {
                o << "(un " << u->op << " ";
                expr(u->right.get());
                o << ")";
            } else if (auto c = dynamic_cast<CastExpression*>(e)) {
                o << "(cast ";
                type(c->targetType.get());
                o << " ";
                expr(c->expression.get());
                o << ")";
            } else if (auto p = dynamic_cast<PostfixExpression*>(e)) {
                o << "(post " << p->op << " ";
                expr(p->left.get());
                o << ")";
            } else if (auto l = dynamic_cast<LiteralExpression*>(e)) {
                o << "(lit " << l->literalType << " " << jstr(l->value) << ")";
            } else if (dynamic_cast<NullLiteralExpression*>(e)) {
                o << "(null)";
            } else if (auto v = dynamic_cast<VariableExpression*>(e)) {
                o << "(var " << v->name << ")";
            } else if (auto c2 = dynamic_cast<CallExpression*>(e)) {
                o << "(call ";
                expr(c2->callee.get());
                for (auto& a : c2->arguments) {
                    o << " ";
                    expr(a.get());
                }
                o << ")";
            } else if (auto m = dynamic_cast<MemberAccessExpression*>(e)) {
                o << "(mem ";
                expr(m->object.get());
                o << " " << m->member << ")";
            } else if (auto n = dynamic_cast<NewExpression*>(e)) {
                o << "(new ";
                type(n->classType.get());
                for (auto& a : n->arguments) {
                    o << " ";
                    expr(a.get());
                }
                o << ")";
            } else if (dynamic_cast<ThisExpression*>(e)) {
                o << "(this)";
            } else if (dynamic_cast<SuperExpression*>(e)) {
                o << "(super)";
            } else if (auto i = dynamic_cast<IndexExpression*>(e)) {
                o << "(idx ";
                expr(i->collection.get());
                o << " ";
                expr(i->index.get());
                o << ")";
            } else if (auto al = dynamic_cast<ArrayLiteralExpression*>(e)) {
                o << "(arr";
                for (auto& a : al->elements) {
                    o << " ";
                    expr(a.get());
                }
                o << ")";
            } else if (auto pe = dynamic_cast<ParenthesizedExpression*>(e)) {
                expr(pe->expression.get());
            } else if (auto me = dynamic_cast<MeasureExpression*>(e)) {
                o << "(measure ";
                expr(me->qubit.get());
                o << ")";
            } else if (auto ae = dynamic_cast<AssignmentExpression*>(e)) {
                o << "(set " << ae->name << " ";
                expr(ae->value.get());
                o << ")";
            } else if (auto ma = dynamic_cast<MemberAssignmentExpression*>(e)) {
                o << "(mset ";
                expr(ma->object.get());
                o << " " << ma->member << " ";
                expr(ma->value.get());
                o << ")";
            } else if (auto aa = dynamic_cast<ArrayAssignmentExpression*>(e)) {
                o << "(aset ";
                expr(aa->collection.get());
                o << " ";
                expr(aa->index.get());
                o << " ";
                expr(aa->value.get());
                o << ")";
            } else {
                o << "(?expr)";
            }
        }

        void stmt(Statement* s) {
            if (!s) {
                o << "_";
                return;
            }
            if (auto v = dynamic_cast<VariableDeclaration*>(s)) {
                o << "(decl ";
                type(v->varType.get());
                o << " " << v->name << (v->isFinal ? " final" : "") << (v->isTracked ? " tracked" : "")
                  << " ";
                annotations(v->annotations);
                o << " ";
                expr(v->initializer.get());
                o << ")";
            } else if (auto b = dynamic_cast<BlockStatement*>(s)) {
                o << "(block";
                for (auto& st : b->statements) {
                    o << " ";
                    stmt(st.get());
                }
                o << ")";
            } else if (auto es = dynamic_cast<ExpressionStatement*>(s)) {
                // `x = e;` is one shape whether parsed as statement or expression
                Expression* inner = es->expression.get();
                while (auto pe = dynamic_cast<ParenthesizedExpression*>(inner)) inner = pe->expression.get();
                if (dynamic_cast<AssignmentExpression*>(inner)) {
                    expr(inner);
                } else {
                    o << "(expr ";
                    expr(es->expression.get());
                    o << ")";
                }
            } else if (auto r = dynamic_cast<ReturnStatement*>(s)) {
                o << "(return ";
                expr(r->value.get());
                o << ")";
            } else if (auto i = dynamic_cast<IfStatement*>(s)) {
                o << "(if ";
                expr(i->condition.get());
                o << " ";
                stmt(i->thenBranch.get());
                o << " ";
                stmt(i->elseBranch.get());
                o << ")";
            } else if (auto f = dynamic_cast<ForStatement*>(s)) {
                o << "(for ";
                stmt(f->initializer.get());
                o << " ";
                expr(f->condition.get());
                o << " ";
                expr(f->increment.get());
                o << " ";
                stmt(f->body.get());
                o << ")";
            } else if (auto w = dynamic_cast<WhileStatement*>(s)) {
                o << "(while ";
                expr(w->condition.get());
                o << " ";
                stmt(w->body.get());
                o << ")";
            } else if (auto e = dynamic_cast<EchoStatement*>(s)) {
                o << "(echo ";
                expr(e->value.get());
                o << ")";
            } else if (auto rs = dynamic_cast<ResetStatement*>(s)) {
                o << "(reset ";
                expr(rs->target.get());
                o << ")";
            } else if (auto ms = dynamic_cast<MeasureStatement*>(s)) {
                o << "(measurestmt ";
                expr(ms->qubit.get());
                o << ")";
            } else if (auto d = dynamic_cast<DestroyStatement*>(s)) {
                o << "(destroy ";
                expr(d->target.get());
                o << ")";
            } else if (auto t = dynamic_cast<TernaryStatement*>(s)) {
                o << "(tern ";
                expr(t->condition.get());
                o << " ";
                stmt(t->thenBranch.get());
                o << " ";
                stmt(t->elseBranch.get());
                o << ")";
            } else if (auto as = dynamic_cast<AssignmentStatement*>(s)) {
                o << "(set " << as->name << " ";
                expr(as->value.get());
                o << ")";
            } else {
                o << "(?stmt)";
            }
        }

        void params(const std::vector<std::unique_ptr<Parameter>>& ps) {
            o << "(params";
            for (auto& p : ps) {
                o << " (";
                type(p->type.get());
                o << " " << p->name << ")";
            }
            o << ")";
        }

        const char* vis(Visibility v) {
            return v == Visibility::Public ? "public" : v == Visibility::Private ? "private" : "protected";
        }

        void member(ClassMember* m) {
            if (auto f = dynamic_cast<FieldDeclaration*>(m)) {
                o << "(field " << vis(f->visibility) << (f->isStatic ? " static" : "")
                  << (f->isFinal ? " final" : "") << (f->isTracked ? " tracked" : "") << " ";
                annotations(f->annotations);
                o << " ";
                type(f->fieldType.get());
                o << " " << f->name << " ";
                expr(f->initializer.get());
                o << ")";
            } else if (auto me = dynamic_cast<MethodDeclaration*>(m)) {
                o << "(method " << vis(me->visibility) << (me->isStatic ? " static" : "")
                  << (me->isVirtual ? " virtual" : "") << (me->isOverride ? " override" : "")
                  << (me->hasQuantumAnnotation ? " quantum" : "") << " ";
                annotations(me->annotations);
                o << " " << me->name << " ";
                params(me->params);
                o << " ";
                type(me->returnType.get());
                o << " ";
                if (me->body)
                    stmt(me->body.get());
                else
                    o << "_";
                o << ")";
            } else if (auto c = dynamic_cast<ConstructorDeclaration*>(m)) {
                o << "(ctor " << vis(c->visibility) << (c->isDefault ? " default" : "") << " ";
                params(c->params);
                o << " ";
                if (c->body)
                    stmt(c->body.get());
                else
                    o << "_";
                o << ")";
            } else if (auto d = dynamic_cast<DestructorDeclaration*>(m)) {
                o << "(dtor " << vis(d->visibility) << (d->isDefault ? " default" : "") << " ";
                if (d->body)
                    stmt(d->body.get());
                else
                    o << "_";
                o << ")";
            } else {
                o << "(?member)";
            }
        }

        void program(Program& p) {
            o << "(program";
            if (p.packageDecl) {
                o << " (package ";
                for (size_t i = 0; i < p.packageDecl->nameParts.size(); ++i)
                    o << (i ? "." : "") << p.packageDecl->nameParts[i];
                o << ")";
            }
            for (auto& im : p.imports) {
                o << " (import ";
                for (size_t i = 0; i < im->packageParts.size(); ++i)
                    o << (i ? "." : "") << im->packageParts[i];
                if (im->isWildcard)
                    o << " *";
                else if (im->symbol)
                    o << " " << *im->symbol;
                o << ")";
            }
            for (auto& c : p.classes) {
                o << " (class " << c->name << (c->isStatic ? " static" : "")
                  << (c->isAbstract ? " abstract" : "") << " (tparams";
                for (auto& tp : c->typeParameters) {
                    o << " (" << tp->name << " ";
                    type(tp->bound.get());
                    o << ")";
                }
                o << ") (base ";
                if (c->baseType)
                    type(c->baseType.get());
                else if (!c->baseName.empty()) {
                    for (size_t i = 0; i < c->baseName.size(); ++i) o << (i ? "." : "") << c->baseName[i];
                } else
                    o << "_";
                o << ")";
                for (auto& m : c->members) {
                    o << " ";
                    member(m.get());
                }
                o << ")";
            }
            for (auto& f : p.functions) {
                o << " (fn " << f->name << (f->hasQuantumAnnotation ? " quantum" : "")
                  << (f->hasShotsAnnotation ? " shots" : "") << " ";
                annotations(f->annotations);
                o << " ";
                params(f->params);
                o << " ";
                type(f->returnType.get());
                o << " ";
                if (f->body)
                    stmt(f->body.get());
                else
                    o << "_";
                o << ")";
            }
            for (auto& s : p.statements) {
                o << " ";
                stmt(s.get());
            }
            o << " (shots " << (p.shots.first ? 1 : 0) << " " << p.shots.second << "))";
        }
    };

    std::string dumpProgram(Program& p) {
        Dumper d;
        d.program(p);
        return d.o.str();
    }

    // ---------------------------------------------------------------- modes

    int modeLex(const std::vector<std::string>& files) {
        for (auto& f : files) {
            std::string src = readFile(f);
            std::cout << "{";
            try {
                Lexer lx(src);
                auto toks = lx.tokenize();
                std::cout << "\"ok\":true,\"tokens\":[";
                for (size_t i = 0; i < toks.size(); ++i) {
                    if (i)
                        std::cout << ",";
                    std::cout << "[" << jstr(tokName(toks[i].type)) << "," << jstr(toks[i].value) << ","
                              << toks[i].line << "," << toks[i].column << "]";
                }
                std::cout << "]";
            } catch (const BlochError& e) {
                std::cout << errJson(e);
            } catch (const std::exception& e) {
                std::cout << rawJson(e);
            }
            std::cout << "}" << std::endl;
        }
        return 0;
    }

    int modeParse(const std::vector<std::string>& files) {
        for (auto& f : files) {
            std::string src = readFile(f);
            std::cout << "{";
            try {
                Lexer lx(src);
                auto toks = lx.tokenize();
                Parser ps(std::move(toks));
                auto prog = ps.parse();
                std::cout << "\"ok\":true,\"sexpr\":" << jstr(dumpProgram(*prog));
            } catch (const BlochError& e) {
                std::cout << errJson(e);
            } catch (const std::exception& e) {
                std::cout << rawJson(e);
            }
            std::cout << "}" << std::endl;
        }
        return 0;
    }

    const char* kGood = "function main() -> void { int x = 1; echo(x); }";
    const char* kBad = "function main() -> void { int x = 1; x = \"s\"; }";

    // After any analysis (accepted or failed) the same analyser object must still accept a
    // good program and reject a bad one.
    std::string reuseProbe(SemanticAnalyser& an) {
        std::string res;
        try {
            Lexer lx(kGood);
            Parser ps(lx.tokenize());
            auto prog = ps.parse();
            an.analyse(*prog);
            res += "good:accept";
        } catch (const BlochError& e) {
            res += std::string("good:") + catName(e.category);
        } catch (const std::exception& e) {
            res += "good:rawexc";
        }
        try {
            Lexer lx(kBad);
            Parser ps(lx.tokenize());
            auto prog = ps.parse();
            an.analyse(*prog);
            res += ",bad:accept";
        } catch (const BlochError& e) {
            res += std::string(",bad:") + catName(e.category);
        } catch (const std::exception& e) {
            res += ",bad:rawexc";
        }
        return res;
    }

    // front [--direct] [--search P]... FILE...
    int modeFront(const std::vector<std::string>& args) {
        bool direct = false;
        std::vector<std::string> search, files;
        for (size_t i = 0; i < args.size(); ++i) {
            if (args[i] == "--direct")
                direct = true;
            else if (args[i] == "--search" && i + 1 < args.size())
                search.push_back(args[++i]);
            else
                files.push_back(args[i]);
        }
        for (auto& f : files) {
            SemanticAnalyser an;
            std::cout << "{";
            bool analysed = false;
            try {
                std::unique_ptr<Program> prog;
                if (direct) {
                    std::string src = readFile(f);
                    Lexer lx(src);
                    Parser ps(lx.tokenize());
                    prog = ps.parse();
                } else {
                    ModuleLoader loader(search);
                    prog = loader.load(f);
                }
                analysed = true;
                an.analyse(*prog);
                std::cout << "\"ok\":true";
            } catch (const BlochError& e) {
                std::cout << errJson(e);
            } catch (const std::exception& e) {
                std::cout << rawJson(e);
            }
            std::cout << ",\"analysed\":" << (analysed ? "true" : "false");
            std::cout << ",\"reuse\":" << jstr(reuseProbe(an));
            std::cout << "}" << std::endl;
        }
        return 0;
    }

    // load [--search P]... ENTRY
    int modeLoad(const std::vector<std::string>& args) {
        std::vector<std::string> search;
        std::string entry;
        for (size_t i = 0; i < args.size(); ++i) {
            if (args[i] == "--search" && i + 1 < args.size())
                search.push_back(args[++i]);
            else
                entry = args[i];
        }
        std::cout << "{";
        try {
            ModuleLoader loader(search);
            auto prog = loader.load(entry);
            std::cout << "\"ok\":true,\"classes\":[";
            for (size_t i = 0; i < prog->classes.size(); ++i)
                std::cout << (i ? "," : "") << jstr(prog->classes[i]->name);
            std::cout << "],\"functions\":[";
            for (size_t i = 0; i < prog->functions.size(); ++i)
                std::cout << (i ? "," : "") << jstr(prog->functions[i]->name);
            std::cout << "],\"shots\":[" << (prog->shots.first ? 1 : 0) << "," << prog->shots.second
                      << "]";
        } catch (const BlochError& e) {
            std::cout << errJson(e);
        } catch (const std::exception& e) {
            std::cout << rawJson(e);
        }
        std::cout << "}" << std::endl;
        return 0;
    }

    void printState(std::ostream& o, const QasmSimulator& sim) {
        const auto& st = sim.verifState();
        o << "\"nq\":" << sim.verifQubits() << ",\"state\":[";
        char buf[96];
        for (size_t i = 0; i < st.size(); ++i) {
            snprintf(buf, sizeof buf, "%s[%.17g,%.17g]", i ? "," : "", st[i].real(), st[i].imag());
            o << buf;
        }
        o << "]";
    }

    void printOutcomes(std::ostream& o, const QasmSimulator& sim) {
        o << "\"outcomes\":[";
        const auto& oc = sim.verifOutcomes();
        for (size_t i = 0; i < oc.size(); ++i)
            o << (i ? "," : "") << "[\"" << oc[i].op << "\"," << oc[i].qubit << "," << oc[i].branch
              << "]";
        o << "]";
    }

    bool setGcMode(const std::string& g) {
        if (g == "timer")
            RuntimeEvaluator::verifGcMode = 0;
        else if (g == "natural")
            RuntimeEvaluator::verifGcMode = 1;
        else if (g == "never")
            RuntimeEvaluator::verifGcMode = 2;
        else if (g == "every")
            RuntimeEvaluator::verifGcMode = 3;
        else if (g.rfind("mask:", 0) == 0) {
            RuntimeEvaluator::verifGcMode = 4;
            RuntimeEvaluator::verifGcMask.clear();
            for (size_t i = 5; i < g.size(); ++i)
                RuntimeEvaluator::verifGcMask.push_back(g[i] == '1' ? 1 : 0);
        } else
            return false;
        return true;
    }

    std::vector<std::string> splitLines(const std::string& s) {
        std::vector<std::string> out;
        std::string cur;
        for (char c : s) {
            if (c == '\n') {
                out.push_back(cur);
                cur.clear();
            } else
                cur += c;
        }
        if (!cur.empty())
            out.push_back(cur);
        return out;
    }

    // run FILE [--shots N] [--seed S] [--gc MODE] [--dump a,b,c] [--search P] [--echo 0|1]
    //          [--analyse-twice] [--astdump]
    // Re-assembles the CLI pipeline from the public API: loader -> analyser -> one fresh
    // RuntimeEvaluator per shot (exactly as cli.cpp does), with hooks on.
    int modeRun(const std::vector<std::string>& args) {
        std::string file, dump = "echo,tracked";
        int shots = 1;
        bool haveSeed = false;
        unsigned long long seed = 0;
        std::vector<std::string> search;
        bool echo = true, analyseTwice = false, astdump = false;
        // --cli-shots: configure each shot's evaluator exactly as the shot loop of cli.cpp does (QASM log only for the
        // last shot, unmeasured-qubit warnings off for all but the last)
        bool cliShots = false;
        int shot0 = 0;  // index of the first shot (so that a fresh process can reproduce shot k of a multi-shot run)
        for (size_t i = 0; i < args.size(); ++i) {
            const std::string& a = args[i];
            auto next = [&]() -> std::string { return i + 1 < args.size() ? args[++i] : ""; };
            if (a == "--shots")
                shots = std::atoi(next().c_str());
            else if (a == "--seed") {
                haveSeed = true;
                seed = std::strtoull(next().c_str(), nullptr, 10);
            } else if (a == "--gc") {
                if (!setGcMode(next())) {
                    std::cerr << "bad --gc\n";
                    return 2;
                }
            } else if (a == "--dump")
                dump = next();
            else if (a == "--search")
                search.push_back(next());
            else if (a == "--echo")
                echo = next() != "0";
            else if (a == "--shot0")
                shot0 = std::atoi(next().c_str());
            else if (a == "--analyse-twice")
                analyseTwice = true;
            else if (a == "--astdump")
                astdump = true;
            else if (a == "--cli-shots")
                cliShots = true;
            else
                file = a;
        }
        auto want = [&](const char* k) { return ("," + dump + ",").find(std::string(",") + k + ",") != std::string::npos; };

        std::unique_ptr<Program> program;
        try {
            ModuleLoader loader(search);
            program = loader.load(file);
            SemanticAnalyser analyser;
            analyser.analyse(*program);
            if (analyseTwice) {
                SemanticAnalyser analyser2;
                analyser2.analyse(*program);
            }
        } catch (const BlochError& e) {
            std::cout << "{\"phase\":\"front\"," << errJson(e) << "}" << std::endl;
            return 0;
        } catch (const std::exception& e) {
            std::cout << "{\"phase\":\"front\"," << rawJson(e) << "}" << std::endl;
            return 0;
        }
        if (astdump)
            std::cout << "{\"phase\":\"ast0\",\"sexpr\":" << jstr(dumpProgram(*program)) << "}" << std::endl;

        for (int s = 0; s < shots; ++s) {
            if (haveSeed)
                QasmSimulator::verifSeedRng(seed * 0x9E3779B97F4A7C15ULL +
                                            static_cast<unsigned long long>(s + shot0) * 0xBF58476D1CE4E5B9ULL +
                                            0x94D049BB133111EBULL);
            std::ostringstream capOut, capErr, rec;
            auto* oldOut = std::cout.rdbuf(capOut.rdbuf());
            auto* oldErr = std::cerr.rdbuf(capErr.rdbuf());
            unsigned long long c0 = RuntimeEvaluator::verifGcCollections;
            unsigned long long s0 = RuntimeEvaluator::verifGcSwept;
            std::string status;
            try {
                RuntimeEvaluator evaluator(cliShots ? s == shots - 1 : true);
                evaluator.setEcho(echo);
                if (cliShots && s < shots - 1)
                    evaluator.setWarnOnExit(false);
                try {
                    evaluator.execute(*program);
                    status = "\"ok\":true";
                } catch (const BlochError& e) {
                    status = errJson(e);
                } catch (const std::exception& e) {
                    status = rawJson(e);
                }
                if (want("tracked")) {
                    rec << ",\"tracked\":{";
                    std::map<std::string, std::map<std::string, int>> sorted;
                    for (auto& kv : evaluator.trackedCounts())
                        for (auto& vv : kv.second) sorted[kv.first][vv.first] = vv.second;
                    bool first = true;
                    for (auto& kv : sorted) {
                        rec << (first ? "" : ",") << jstr(kv.first) << ":{";
                        first = false;
                        bool f2 = true;
                        for (auto& vv : kv.second) {
                            rec << (f2 ? "" : ",") << jstr(vv.first) << ":" << vv.second;
                            f2 = false;
                        }
                        rec << "}";
                    }
                    rec << "}";
                }
                if (want("qasm"))
                    rec << ",\"qasm\":" << jstr(evaluator.getQasm());
                if (want("state")) {
                    rec << ",";
                    printState(rec, evaluator.verifSim());
                }
                if (want("outcomes")) {
                    rec << ",";
                    printOutcomes(rec, evaluator.verifSim());
                }
                if (want("heap"))
                    rec << ",\"heap\":" << evaluator.heapObjectCount();
                // evaluator destroyed here (teardown is part of what is observed)
            } catch (const BlochError& e) {
                status = "\"teardown\":true," + errJson(e);
            } catch (const std::exception& e) {
                status = "\"teardown\":true," + rawJson(e);
            }
            std::cout.rdbuf(oldOut);
            std::cerr.rdbuf(oldErr);
            std::cout << "{\"phase\":\"shot\",\"shot\":" << s << "," << status;
            if (want("echo")) {
                std::cout << ",\"echo\":[";
                auto lines = splitLines(capOut.str());
                for (size_t i = 0; i < lines.size(); ++i) std::cout << (i ? "," : "") << jstr(lines[i]);
                std::cout << "]";
            }
            if (want("stderr"))
                std::cout << ",\"stderr\":" << jstr(stripAnsi(capErr.str()));
            std::cout << rec.str();
            if (want("gcstats"))
                std::cout << ",\"gc\":[" << (RuntimeEvaluator::verifGcCollections - c0) << ","
                          << (RuntimeEvaluator::verifGcSwept - s0) << "]";
            std::cout << "}" << std::endl;
        }
        if (astdump)
            std::cout << "{\"phase\":\"ast1\",\"sexpr\":" << jstr(dumpProgram(*program)) << "}" << std::endl;
        return 0;
    }

    // cli ARGS... : the real bloch::cli::run
    int modeCli(std::vector<std::string> args) {
        std::vector<char*> argv;
        static std::string argv0 = "/nonexistent/bin/bloch";
        argv.push_back(argv0.data());
        for (auto& a : args) argv.push_back(a.data());
        argv.push_back(nullptr);
        bloch::cli::Context ctx;
        return bloch::cli::run(static_cast<int>(argv.size()) - 1, argv.data(), ctx);
    }

    // sim SCRIPT : op script on bare simulators.
    //   new | seed N | alloc | h q | x q | y q | z q | rx q t | ry q t | rz q t | cx c t |
    //   measure q | reset q | dump | qasm | outcomes |
    //   repeat K ... end   (block executed K times, each on a fresh simulator; prints counts per
    //                       outcome tuple and one final state per distinct tuple)
    struct SimOp {
        std::string op;
        int a = 0, b = 0;
        double t = 0;
    };

    bool applyOp(QasmSimulator& sim, const SimOp& op, std::ostream& out, bool quiet) {
        try {
            if (op.op == "alloc") {
                int idx = sim.allocateQubit();
                if (!quiet)
                    out << "{\"alloc\":" << idx << ",\"size\":" << sim.stateSize() << "}\n";
            } else if (op.op == "h")
                sim.h(op.a);
            else if (op.op == "x")
                sim.x(op.a);
            else if (op.op == "y")
                sim.y(op.a);
            else if (op.op == "z")
                sim.z(op.a);
            else if (op.op == "rx")
                sim.rx(op.a, op.t);
            else if (op.op == "ry")
                sim.ry(op.a, op.t);
            else if (op.op == "rz")
                sim.rz(op.a, op.t);
            else if (op.op == "cx")
                sim.cx(op.a, op.b);
            else if (op.op == "measure") {
                int r = sim.measure(op.a);
                if (!quiet)
                    out << "{\"measure\":" << op.a << ",\"r\":" << r << "}\n";
            } else if (op.op == "reset")
                sim.reset(op.a);
            else if (op.op == "dump") {
                if (!quiet) {
                    out << "{";
                    printState(out, sim);
                    out << "}\n";
                }
            } else if (op.op == "qasm") {
                if (!quiet)
                    out << "{\"qasm\":" << jstr(sim.getQasm()) << "}\n";
            } else if (op.op == "outcomes") {
                if (!quiet) {
                    out << "{";
                    printOutcomes(out, sim);
                    out << "}\n";
                }
            } else {
                out << "{\"badop\":" << jstr(op.op) << "}\n";
                return false;
            }
        } catch (const BlochError& e) {
            out << "{\"op\":" << jstr(op.op) << "," << errJson(e) << "}\n";
            return false;
        } catch (const std::exception& e) {
            out << "{\"op\":" << jstr(op.op) << "," << rawJson(e) << "}\n";
            return false;
        }
        return true;
    }

    int modeSim(const std::string& scriptPath) {
        std::ifstream in(scriptPath);
        std::string line;
        std::unique_ptr<QasmSimulator> sim = std::make_unique<QasmSimulator>(true);
        std::vector<SimOp> block;
        bool inBlock = false;
        long repeatK = 0;
        std::ostringstream out;
        while (std::getline(in, line)) {
            std::istringstream ls(line);
            SimOp op;
            if (!(ls >> op.op))
                continue;
            if (op.op == "new") {
                sim = std::make_unique<QasmSimulator>(true);
                continue;
            }
            if (op.op == "seed") {
                unsigned long long s;
                ls >> s;
                QasmSimulator::verifSeedRng(s);
                continue;
            }
            if (op.op == "repeat") {
                ls >> repeatK;
                inBlock = true;
                block.clear();
                continue;
            }
            if (op.op == "end") {
                inBlock = false;
                std::map<std::string, long> counts;
                std::map<std::string, std::string> rep;
                for (long k = 0; k < repeatK; ++k) {
                    QasmSimulator s2(false);
                    std::ostringstream sink;
                    bool ok = true;
                    for (auto& bop : block) {
                        if (!applyOp(s2, bop, sink, true)) {
                            ok = false;
                            break;
                        }
                    }
                    std::string key;
                    if (!ok)
                        key = "ERR:" + sink.str();
                    else
                        for (auto& oc : s2.verifOutcomes()) {
                            key += oc.op;
                            key += std::to_string(oc.qubit);
                            key += "=";
                            key += std::to_string(oc.branch);
                            key += ";";
                        }
                    // cluster by outcome log AND by the actual final state (rounded), so that
                    // branches are visible even where no outcome is logged
                    {
                        char buf[64];
                        key += "|";
                        for (const auto& a : s2.verifState()) {
                            snprintf(buf, sizeof buf, "%.6f,%.6f;", a.real() + 0.0, a.imag() + 0.0);
                            key += buf;
                        }
                    }
                    if (!counts.count(key)) {
                        std::ostringstream st;
                        printState(st, s2);
                        rep[key] = st.str();
                    }
                    counts[key]++;
                }
                out << "{\"repeat\":" << repeatK << ",\"branches\":[";
                bool first = true;
                for (auto& kv : counts) {
                    out << (first ? "" : ",") << "{\"key\":" << jstr(kv.first.substr(0, kv.first.find('|')))
                        << ",\"count\":" << kv.second
                        << "," << rep[kv.first] << "}";
                    first = false;
                }
                out << "]}\n";
                continue;
            }
            if (op.op == "h" || op.op == "x" || op.op == "y" || op.op == "z" || op.op == "measure" ||
                op.op == "reset")
                ls >> op.a;
            else if (op.op == "rx" || op.op == "ry" || op.op == "rz") {
                std::string t;
                ls >> op.a >> t;
                op.t = std::strtod(t.c_str(), nullptr);  // accepts hex floats
            } else if (op.op == "cx")
                ls >> op.a >> op.b;
            if (inBlock)
                block.push_back(op);
            else
                applyOp(*sim, op, out, false);
        }
        std::cout << out.str();
        std::cout.flush();
        return 0;
    }

    const char* tokName(TokenType t) {
        switch (t) {
#define T(x)           \
    case TokenType::x: \
        return #x;
            T(Identifier)
            T(IntegerLiteral)
            T(FloatLiteral)
            T(LongLiteral)
            T(BitLiteral)
            T(StringLiteral)
            T(CharLiteral)
            T(True)
            T(False)
            T(Null)
            T(Int)
            T(Long)
            T(Float)
            T(String)
            T(Char)
            T(Qubit)
            T(Bit)
            T(Boolean)
            T(Void)
            T(Function)
            T(Return)
            T(If)
            T(Else)
            T(For)
            T(While)
            T(Measure)
            T(Final)
            T(Reset)
            T(Default)
            T(At)
            T(Quantum)
            T(Tracked)
            T(Shots)
            T(Class)
            T(Public)
            T(Private)
            T(Protected)
            T(Static)
            T(Extends)
            T(Abstract)
            T(Virtual)
            T(Override)
            T(Super)
            T(This)
            T(Import)
            T(Package)
            T(New)
            T(Constructor)
            T(Destructor)
            T(Destroy)
            T(Equals)
            T(Plus)
            T(PlusPlus)
            T(Minus)
            T(MinusMinus)
            T(Star)
            T(Slash)
            T(Percent)
            T(Greater)
            T(GreaterEqual)
            T(Less)
            T(LessEqual)
            T(EqualEqual)
            T(Bang)
            T(BangEqual)
            T(Ampersand)
            T(AmpersandAmpersand)
            T(Pipe)
            T(PipePipe)
            T(Caret)
            T(Tilde)
            T(Question)
            T(Colon)
            T(Dot)
            T(Semicolon)
            T(Comma)
            T(Arrow)
            T(LParen)
            T(RParen)
            T(LBrace)
            T(RBrace)
            T(LBracket)
            T(RBracket)
            T(Echo)
            T(Eof)
            T(Unknown)
#undef T
        }
        return "?";
    }

}  // namespace

int main(int argc, char** argv) {
    if (argc < 2) {
        std::cerr << "usage: verifdrv <lex|parse|front|load|run|cli|sim> ...\n";
        return 2;
    }
    std::string mode = argv[1];
    std::vector<std::string> args(argv + 2, argv + argc);
    if (mode == "cli")
        return modeCli(args);  // exceptions escape exactly as they would from main()
    try {
        if (mode == "lex")
            return modeLex(args);
        if (mode == "parse")
            return modeParse(args);
        if (mode == "front")
            return modeFront(args);
        if (mode == "load")
            return modeLoad(args);
        if (mode == "run")
            return modeRun(args);
        if (mode == "sim")
            return modeSim(args.empty() ? "/dev/stdin" : args[0]);
    } catch (const std::exception& e) {
        std::cout << "{\"fatal\":true," << rawJson(e) << "}" << std::endl;
        return 3;
    }
    std::cerr << "unknown mode\n";
    return 2;
}
