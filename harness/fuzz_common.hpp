// Shared by the libFuzzer targets: oracle failure reporting.
#pragma once
#include <cstdio>
#include <cstdlib>
#include <string>

[[noreturn]] inline void verifFail(const char* what, const std::string& detail) {
    fprintf(stderr, "VERIF-ORACLE-FAILURE: %s: %s\n", what, detail.c_str());
    fflush(stderr);
    __builtin_trap();
}

inline bool nestingWithin(const uint8_t* data, size_t size, int limit) {
    int depth = 0, maxd = 0;
    for (size_t i = 0; i < size; ++i) {
        char c = static_cast<char>(data[i]);
        if (c == '(' || c == '[' || c == '{' || c == '<')
            maxd = ++depth > maxd ? depth : maxd;
        else if ((c == ')' || c == ']' || c == '}' || c == '>') && depth > 0)
            --depth;
    }
    // unary/prefix chains recurse as well
    int run = 0, maxrun = 0;
    for (size_t i = 0; i < size; ++i) {
        char c = static_cast<char>(data[i]);
        if (c == '-' || c == '!' || c == '~' || c == ' ')
            maxrun = ++run > maxrun ? run : maxrun;
        else
            run = 0;
    }
    return maxd <= limit && maxrun <= 4 * limit;
}
