#!/usr/bin/env python3
"""Regenerates MANIFEST.json from the table below (single source of truth for the interface)."""
import json, os, subprocess
V = os.path.dirname(os.path.abspath(__file__))
ALL = ["C%02d" % i for i in range(1, 21)]
CHECKS = {
 "C15": dict(technique="property-based testing (Hypothesis): source-offset round-trip model of token positions over generated lexeme/trivia sequences and raw strings",
             text="Generated-input search: every token's reported (line, column) must index its own text in the source, tokens must not overlap and the gaps must be pure whitespace/comments; separated lexemes must come back one-to-one. Exploration, not proof: the lexer is a 340-line single-pass scanner whose whole input alphabet and all token classes are covered by the generators.",
             note="Trusts the Python offset model (lines split at \\n, one column per byte) and the driver's faithful printing of the public Lexer::tokenize() result.",
             ref="DESIGN.md §4 C15"),
}
CHECKS.update({
 "C01": dict(technique="property-based testing: exhaustive small-n enumeration of every gate x target x basis state against a numpy Kronecker-product reference (one global phase per matrix) + Hypothesis-generated entangled states and Bloch programs",
             text="For n<=5 (thorough 7) the complete 2^n x 2^n matrix of every built-in gate on every target / ordered cx pair is read back through the amplitude hook and compared with U_ref (x) I up to a single global phase; random entangling circuits (n<=6/8) then check one gate on states with superposed targets. Exhaustive for the enumerated sizes and angle list, exploration beyond.",
             note="Trusts the numpy reference and the BLOCH_VERIF amplitude accessor; angles come from a fixed list plus random doubles.",
             ref="DESIGN.md §4 C01"),
 "C02": dict(technique="property-based testing: exact projection oracle on generated gate/measure histories + binomial/multinomial tests (z=5.5) on the simulator's own seeded draws",
             text="Every measurement in generated histories is compared amplitude-by-amplitude with the normalised projection onto the reported outcome (impossible outcomes are violations); Born-rule frequencies are tested on shaped states (p1 from 0 to 1, entangled partners) and on full sequential measurement of entangled registers.",
             note="Statistical part: deterministic seeds, z=5.5 (false alarm < 4e-8 per test). Trusts numpy reference, RNG-seeding and outcome-log hooks.",
             ref="DESIGN.md §4 C02"),
 "C03": dict(technique="model-based (stateful) property testing: generated alloc/gate/cx/measure/reset histories with invariants checked after every step",
             text="Histories are generated against a small model so that only valid operations occur; after every step the amplitude vector must have length 2^n, be finite and of unit norm, alloc must equal psi_old (x) |0> exactly, gates/measurements match the reference and reset is one of the valid branches.",
             note="Continues from the implementation's own state after each step so errors do not compound; trusts numpy reference and amplitude hook.",
             ref="DESIGN.md §4 C03"),
 "C04": dict(technique="property-based testing with a statistical oracle: frequency-weighted reduced density matrix of the non-target qubits over K seeded resets vs partial trace of the pre-reset state",
             text="Implementation-agnostic locality oracle: whatever branches reset takes, their frequency-weighted mixture restricted to the other qubits must equal the partial trace of psi_before (6 sigma), and every branch must have zero amplitude wherever the target bit is set. Found and led to the repair of the projection-style reset.",
             note="K=3000 repetitions per state, tolerance 6*sqrt(1/4K); trusts numpy partial trace and hooks.",
             ref="DESIGN.md §4 C04"),
})
CHECKS.update({
 "C07": dict(technique="property-based differential testing: Hypothesis-generated well-typed programs vs an independent reference interpreter written from the documentation",
             text="A typed-by-construction generator covers every operator, promotion, cast, array and control-flow form of the documented classical core; echo output (numeric tokens compared numerically) or the runtime error kind must equal the reference interpreter's. Results the docs do not fix are discarded and counted, never asserted.",
             note="Trusts pbt/ref_classic.py as a faithful reading of docs/language/*.md and docs/casting.md; programs are run through the real CLI entry point of an ASan/UBSan build.",
             ref="DESIGN.md §4 C07"),
 "C10": dict(technique="metamorphic property-based testing: permutations of top-level declarations of generated programs must not change acceptance, diagnostic category, exit status or stdout",
             text="All permutations (<=4 declarations) or sampled ones incl. the reverse order; the generator produces calls with arguments to functions that the permutation moves after their caller. No reference model is needed: the program is its own oracle.",
             note="Classic (functions) profile; the classes profile joins when pbt/genclass.py is present.",
             ref="DESIGN.md §4 C10"),
 "C13": dict(technique="coverage-guided fuzzing (libFuzzer, oracle inside the target, ASan+UBSan) + systematic token-level mutation enumeration and Hypothesis mutants with a validity-predicate oracle",
             text="Every single-token deletion/truncation and class-directed replacement of 269 seed programs, random multi-edit mutants, multi-file trees with a mutated member and a libFuzzer campaign are pushed through both the direct and the loader front-end paths; each must terminate with acceptance or exactly one Lexical/Parse/Semantic diagnostic, no raw exception, no sanitizer report, and leave the analyser reusable.",
             note="Inputs bounded to 4 KiB and nesting 64; libFuzzer runs are only approximately reproducible, artifacts are re-checked by the deterministic oracle.",
             ref="DESIGN.md §4 C13", engine="libFuzzer+hypothesis+verifdrv"),
 "C14": dict(technique="property-based round-trip testing: generated syntax trees rendered with minimal/redundant parentheses and parsed back, compared as S-expressions",
             text="Trees over every documented expression, statement, function and class-member form are rendered from the documented precedence table and must parse to the same tree; one inherently ambiguous token shape is excluded and counted.",
             note="Trusts the renderer's reading of docs/grammar.md and the driver's AST dumper (public node structs, parentheses transparent).",
             ref="DESIGN.md §4 C14"),
 "C19": dict(technique="property-based testing against a reference model: generated directory trees / search paths / working directories vs a reference import resolver; validity predicate on the merged order",
             text="Marker classes make the set of loaded files observable; success must load exactly the predicted files once each with dependencies first, failure must be a Semantic diagnostic. Generator builds diamonds, cycles, shadowed paths, wildcard directories, bloch.* preference and aliased search paths on purpose.",
             note="Reference resolver written from language-guide.md/semantics.md; bloch/lang/Object.bloch is never generated.",
             ref="DESIGN.md §4 C19"),
 "C20": dict(technique="property-based testing of the updater's pure helpers (compiled into a harness TU): reference semver parser, order laws, exact-name checksum lookup, model-based 72 h throttle sequences",
             text="Version strings from a grammar (huge numbers, leading zeros, suffixes, garbage) in triples check parse agreement, antisymmetry/transitivity and the notice/install gates; checksums.txt files with decoy assets check exact matching; invocation sequences over virtual time and over a real cache file check the throttle and the environment switches.",
             note="The network leg (download, extract, replace) cannot run offline and is not exercised; the install gate is observed as !hasLatest(current, latest).",
             ref="DESIGN.md §4 C20", engine="hypothesis+verifupd"),
})
REASONS = {}
def main():
    hooks = subprocess.run(["git","-C","/repo","log","--format=%h %s","--grep=^verif hooks"],capture_output=True,text=True).stdout.strip().splitlines()
    m = {
     "version": 1,
     "setup_cmd": "python3-vt -m pbt.build asan upd fuzz",
     "hooks": {"guard": "BLOCH_VERIF",
               "enable": "pbt/build.py compiles /repo/src/**/*.cpp directly with clang++ -std=gnu++20 -DBLOCH_VERIF plus sanitizers into /verif/.build/<flavour>-<sha256 of tree>/; recomputed at the start of every check",
               "baseline_off_cmd": "/verif/harness/baseline_off.sh /repo",
               "source_commits": [h.split()[0] for h in hooks],
               "add_only": True},
     "engines": [
       {"name": "hypothesis", "path": "/opt/veriftools/pyvenv (python3-vt)", "serves_properties": sorted(CHECKS), "kind_free_text": "property-based testing library (generation, shrinking, stateful mode)"},
       {"name": "verifdrv", "path": "harness/verifdrv.cpp", "serves_properties": sorted(CHECKS), "kind_free_text": "observation-only C++ driver linked against /repo/src built with ASan+UBSan and -DBLOCH_VERIF; one process per case"},
     ],
     "checks": [], "not_applicable": [],
     "notes": "See DESIGN.md. ./check <ID> quick|thorough ; VERIF_SEED selects the Hypothesis seeds; known_findings.json lists fixed/known findings.",
    }
    for pid in ALL:
        if pid in CHECKS:
            c = CHECKS[pid]
            m["checks"].append({
              "property_id": pid, "quick_cmd": f"./check {pid} quick", "thorough_cmd": f"./check {pid} thorough",
              "evidence_file": f"/verif/evidence/{pid}.json", "replay_cmd_template": f"./check {pid} --replay {{path}}",
              "engine": c.get("engine", "hypothesis+verifdrv"),
              "level_claimed": {"category": "exploration", "text": c["text"], "design_ref": c["ref"]},
              "level_note": c["note"], "technique": c["technique"]})
        else:
            m["not_applicable"].append({"property_id": pid, "reason": REASONS.get(pid, "check not built yet in this session (planned, see DESIGN.md §4); no claim is made until it exists")})
    json.dump(m, open(os.path.join(V, "MANIFEST.json"), "w"), indent=1)
if __name__ == "__main__":
    main()
