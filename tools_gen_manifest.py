#!/usr/bin/env python3
"""Regenerates MANIFEST.json from the table below (single source of truth for the interface)."""
import json, os, subprocess
V = os.path.dirname(os.path.abspath(__file__))
ALL = ["C%02d" % i for i in range(1, 21)]
CHECKS = {
 "C15": dict(technique="property-based testing (Hypothesis): source-offset round-trip model of token positions over generated lexeme/trivia sequences and raw strings",
             text="Generated-input search: every token's reported (line, column) must index its own text in the source, tokens must not overlap and the gaps must be pure whitespace/comments; separated lexemes must come back one-to-one. Exploration, not proof: the lexer is a 340-line single-pass scanner whose whole input alphabet and all token classes are covered by the generators.",
             note="Trusts the Python offset model (lines split at \\n, one column per byte) and the driver's faithful printing of the public Lexer::tokenize() result.",
             ref="DESIGN.md §4 C15"),
}
CHECKS.update({
 "C01": dict(technique="property-based testing: exhaustive small-n enumeration of every gate x target x basis state against a numpy Kronecker-product reference (one global phase per matrix) + Hypothesis-generated entangled states and Bloch programs",
             text="For n<=5 (thorough 7) the complete 2^n x 2^n matrix of every built-in gate on every target / ordered cx pair is read back through the amplitude hook and compared with U_ref (x) I up to a single global phase; random entangling circuits (n<=6/8) then check one gate on states with superposed targets. Exhaustive for the enumerated sizes and angle list, exploration beyond.",
             note="Trusts the numpy reference and the BLOCH_VERIF amplitude accessor; angles come from a fixed list plus random doubles.",
             ref="DESIGN.md §4 C01"),
 "C02": dict(technique="property-based testing: exact projection oracle on generated gate/measure histories + binomial/multinomial tests (z=5.5) on the simulator's own seeded draws",
             text="Every measurement in generated histories is compared amplitude-by-amplitude with the normalised projection onto the reported outcome (impossible outcomes are violations); Born-rule frequencies are tested on shaped states (p1 from 0 to 1, entangled partners) and on full sequential measurement of entangled registers.",
             note="Statistical part: deterministic seeds, z=5.5 (false alarm < 4e-8 per test). Trusts numpy reference, RNG-seeding and outcome-log hooks.",
             ref="DESIGN.md §4 C02"),
 "C03": dict(technique="model-based (stateful) property testing: generated alloc/gate/cx/measure/reset histories with invariants checked after every step",
             text="Histories are generated against a small model so that only valid operations occur; after every step the amplitude vector must have length 2^n, be finite and of unit norm, alloc must equal psi_old (x) |0> exactly, gates/measurements match the reference and reset is one of the valid branches.",
             note="Continues from the implementation's own state after each step so errors do not compound; trusts numpy reference and amplitude hook.",
             ref="DESIGN.md §4 C03"),
 "C04": dict(technique="property-based testing with a statistical oracle: frequency-weighted reduced density matrix of the non-target qubits over K seeded resets vs partial trace of the pre-reset state",
             text="Implementation-agnostic locality oracle: whatever branches reset takes, their frequency-weighted mixture restricted to the other qubits must equal the partial trace of psi_before (6 sigma), and every branch must have zero amplitude wherever the target bit is set. Found and led to the repair of the projection-style reset.",
             note="K=3000 repetitions per state, tolerance 6*sqrt(1/4K); trusts numpy partial trace and hooks.",
             ref="DESIGN.md §4 C04"),
})
REASONS = {}
def main():
    hooks = subprocess.run(["git","-C","/repo","log","--format=%h %s","--grep=^verif hooks"],capture_output=True,text=True).stdout.strip().splitlines()
    m = {
     "version": 1,
     "setup_cmd": "python3-vt -m pbt.build asan",
     "hooks": {"guard": "BLOCH_VERIF",
               "enable": "pbt/build.py compiles /repo/src/**/*.cpp directly with clang++ -std=gnu++20 -DBLOCH_VERIF plus sanitizers into /verif/.build/<flavour>-<sha256 of tree>/; recomputed at the start of every check",
               "baseline_off_cmd": "/verif/harness/baseline_off.sh /repo",
               "source_commits": [h.split()[0] for h in hooks],
               "add_only": True},
     "engines": [
       {"name": "hypothesis", "path": "/opt/veriftools/pyvenv (python3-vt)", "serves_properties": sorted(CHECKS), "kind_free_text": "property-based testing library (generation, shrinking, stateful mode)"},
       {"name": "verifdrv", "path": "harness/verifdrv.cpp", "serves_properties": sorted(CHECKS), "kind_free_text": "observation-only C++ driver linked against /repo/src built with ASan+UBSan and -DBLOCH_VERIF; one process per case"},
     ],
     "checks": [], "not_applicable": [],
     "notes": "See DESIGN.md. ./check <ID> quick|thorough ; VERIF_SEED selects the Hypothesis seeds; known_findings.json lists fixed/known findings.",
    }
    for pid in ALL:
        if pid in CHECKS:
            c = CHECKS[pid]
            m["checks"].append({
              "property_id": pid, "quick_cmd": f"./check {pid} quick", "thorough_cmd": f"./check {pid} thorough",
              "evidence_file": f"/verif/evidence/{pid}.json", "replay_cmd_template": f"./check {pid} --replay {{path}}",
              "engine": c.get("engine", "hypothesis+verifdrv"),
              "level_claimed": {"category": "exploration", "text": c["text"], "design_ref": c["ref"]},
              "level_note": c["note"], "technique": c["technique"]})
        else:
            m["not_applicable"].append({"property_id": pid, "reason": REASONS.get(pid, "check not built yet in this session (planned, see DESIGN.md §4); no claim is made until it exists")})
    json.dump(m, open(os.path.join(V, "MANIFEST.json"), "w"), indent=1)
if __name__ == "__main__":
    main()
