#!/usr/bin/env python3
"""Regenerates MANIFEST.json from the table below (single source of truth for the interface)."""
import json, os, subprocess
V = os.path.dirname(os.path.abspath(__file__))
ALL = ["C%02d" % i for i in range(1, 21)]
CHECKS = {
 "C15": dict(technique="property-based testing (Hypothesis): source-offset round-trip model of token positions over generated lexeme/trivia sequences and raw strings",
             text="Generated-input search: every token's reported (line, column) must index its own text in the source, tokens must not overlap and the gaps must be pure whitespace/comments; separated lexemes must come back one-to-one. Exploration, not proof: the lexer is a 340-line single-pass scanner whose whole input alphabet and all token classes are covered by the generators.",
             note="Trusts the Python offset model (lines split at \\n, one column per byte) and the driver's faithful printing of the public Lexer::tokenize() result.",
             ref="DESIGN.md §4 C15"),
}
CHECKS.update({
 "C01": dict(technique="property-based testing: exhaustive small-n enumeration of every gate x target x basis state against a numpy Kronecker-product reference (one global phase per matrix) + Hypothesis-generated entangled states and Bloch programs",
             text="For n<=5 (thorough 7) the complete 2^n x 2^n matrix of every built-in gate on every target / ordered cx pair is read back through the amplitude hook and compared with U_ref (x) I up to a single global phase; random entangling circuits (n<=6/8) then check one gate on states with superposed targets. Exhaustive for the enumerated sizes and angle list, exploration beyond.",
             note="Trusts the numpy reference and the BLOCH_VERIF amplitude accessor; angles come from a fixed list plus random doubles.",
             ref="DESIGN.md §4 C01"),
 "C02": dict(technique="property-based testing: exact projection oracle on generated gate/measure histories + binomial/multinomial tests (z=5.5) on the simulator's own seeded draws",
             text="Every measurement in generated histories is compared amplitude-by-amplitude with the normalised projection onto the reported outcome (impossible outcomes are violations); Born-rule frequencies are tested on shaped states (p1 from 0 to 1, entangled partners) and on full sequential measurement of entangled registers. A further family interleaves resets of superposed / entangled qubits with gates and a fresh coin and compares the distribution of the MEASURED outcomes over 4000 seeded repetitions with the mixture over reset branches (a measurement after a reset must be an independent Born draw).",
             note="Statistical part: deterministic seeds, z=5.5 (false alarm < 4e-8 per test). Trusts numpy reference, RNG-seeding and outcome-log hooks.",
             ref="DESIGN.md §4 C02"),
 "C03": dict(technique="model-based (stateful) property testing: generated alloc/gate/cx/measure/reset histories with invariants checked after every step",
             text="Histories are generated against a small model so that only valid operations occur; after every step the amplitude vector must have length 2^n, be finite and of unit norm, alloc must equal psi_old (x) |0> exactly, gates/measurements match the reference and reset is one of the valid branches.",
             note="Continues from the implementation's own state after each step so errors do not compound; trusts numpy reference and amplitude hook.",
             ref="DESIGN.md §4 C03"),
 "C04": dict(technique="property-based testing with a statistical oracle: frequency-weighted reduced density matrix of the non-target qubits over K seeded resets vs partial trace of the pre-reset state",
             text="Implementation-agnostic locality oracle: whatever branches reset takes, their frequency-weighted mixture restricted to the other qubits must equal the partial trace of psi_before (6 sigma), and every branch must have zero amplitude wherever the target bit is set. Found and led to the repair of the projection-style reset. Program level: reset statement, destroy of the owning object, index reuse, and reuse after the released indices were disturbed through copied handles.",
             note="K=3000 repetitions per state, tolerance 6*sqrt(1/4K); trusts numpy partial trace and hooks.",
             ref="DESIGN.md §4 C04"),
})
CHECKS.update({
 "C07": dict(technique="property-based differential testing: Hypothesis-generated well-typed programs vs an independent reference interpreter written from the documentation",
             text="A typed-by-construction generator covers every operator, promotion, cast, array and control-flow form of the documented classical core; echo output (numeric tokens compared numerically) or the runtime error kind must equal the reference interpreter's. Results the docs do not fix are discarded and counted, never asserted. Two closed-form families: the nine int->long widening sites with operands up to 2^31-1 (arithmetic and overload selection must see a long), and leaving a for loop by return (step forms with calls, echoes and a failing guard; nested loops; functions and methods).",
             note="Trusts pbt/ref_classic.py as a faithful reading of docs/language/*.md and docs/casting.md; programs are run through the real CLI entry point of an ASan/UBSan build.",
             ref="DESIGN.md §4 C07"),
 "C10": dict(technique="metamorphic property-based testing: permutations of top-level declarations of generated programs must not change acceptance, diagnostic category, exit status or stdout",
             text="All permutations (<=4 declarations) or sampled ones incl. the reverse order; the generator produces calls with arguments to functions that the permutation moves after their caller, class hierarchies whose bases move after the derived class, and a family that USES functions of assorted return types (typed declarations, arithmetic, member access on the result, overload selection, conditions, returns; well- and ill-typed) from functions and class methods. No reference model is needed: the program is its own oracle.",
             note="Classic (functions), classes and return-type-dependence profiles.",
             ref="DESIGN.md §4 C10"),
 "C13": dict(technique="coverage-guided fuzzing (libFuzzer, oracle inside the target, ASan+UBSan) + systematic token-level mutation enumeration and Hypothesis mutants with a validity-predicate oracle",
             text="Every single-token deletion/truncation and class-directed replacement of 274 seed programs (269 from the repository, 5 written for generic classes; every seed also runs unmutated), every identifier swapped for another identifier of the same program and every base-class name for every class of the program (inheritance cycles, self-inheritance), random multi-edit mutants, multi-file trees with a mutated member and a libFuzzer campaign are pushed through both the direct and the loader front-end paths; each must terminate with acceptance or exactly one Lexical/Parse/Semantic diagnostic, no raw exception, no sanitizer report, and leave the analyser reusable.",
             note="Inputs bounded to 4 KiB and nesting 64; libFuzzer runs are only approximately reproducible, artifacts are re-checked by the deterministic oracle.",
             ref="DESIGN.md §4 C13", engine="libFuzzer+hypothesis+verifdrv"),
 "C14": dict(technique="property-based round-trip testing: generated syntax trees rendered with minimal/redundant parentheses and parsed back, compared as S-expressions",
             text="Trees over every documented expression, statement, function and class-member form are rendered from the documented precedence table and must parse to the same tree; one inherently ambiguous token shape is excluded and counted.",
             note="Trusts the renderer's reading of docs/grammar.md and the driver's AST dumper (public node structs, parentheses transparent).",
             ref="DESIGN.md §4 C14"),
 "C19": dict(technique="property-based testing against a reference model: generated directory trees / search paths / working directories vs a reference import resolver; validity predicate on the merged order",
             text="Marker classes make the set of loaded files observable; success must load exactly the predicted files once each with dependencies first, failure must be a Semantic diagnostic. Generator builds diamonds, cycles, shadowed paths, wildcard directories, bloch.* preference and aliased search paths on purpose. One file may be reached under a full and a relative qualified name.",
             note="Reference resolver written from language-guide.md/semantics.md; bloch/lang/Object.bloch is never generated.",
             ref="DESIGN.md §4 C19"),
 "C20": dict(technique="property-based testing of the updater's pure helpers (compiled into a harness TU): reference semver parser, order laws, exact-name checksum lookup, model-based 72 h throttle sequences",
             text="Version strings from a grammar (huge numbers, leading zeros, suffixes, garbage) in triples check parse agreement, antisymmetry/transitivity and the notice/install gates; checksums.txt files with decoy assets check exact matching; invocation sequences over virtual time and over a real cache file check the throttle and the environment switches. Invocation sequences also contain steps whose last release lookup is stale, so that a lookup is attempted and fails offline.",
             note="The network leg (download, extract, replace) cannot run offline and is not exercised; the install gate is observed as !hasLatest(current, latest).",
             ref="DESIGN.md §4 C20", engine="hypothesis+verifupd"),
})
CHECKS.update({
 "C05": dict(technique="property-based testing: generated quantum programs; strict OpenQASM-2 parser + abstract interpreter of the program (expected op sequence with handles) + forced-outcome replay on a numpy interpreter; CLI file/stdout equality",
             text="The emitted text must parse under a strict grammar (header, one qreg/creg, operands in range, cx operands distinct), list exactly the operations the program performed in order (explicit ops and implicit resets on qubit release/re-use, under one consistent handle-to-index map) and replay - with the logged measure/reset branches forced - to the simulator's final amplitudes up to global phase.",
             note="Trusts the abstract interpreter in pbt/qprog.py (what a program performs), the numpy replayer and the outcome/amplitude hooks.",
             ref="DESIGN.md §4 C05"),
 "C06": dict(technique="model-based property testing: generated operation sequences rendered through random access paths; per-qubit active/measured model predicts the first offending operation; metamorphic prefix closure",
             text="The model gives the first operation that touches a measured qubit; the run must end there with one located runtime error (and not earlier, not later: the prefix before it runs cleanly, the prefix through it fails); an unlocated diagnostic reveals disagreement between the evaluator's and the simulator's flags.",
             note="The diagnostic line may be that of the built-in call inside the helper the operation was routed through.",
             ref="DESIGN.md §4 C06"),
 "C08": dict(technique="property-based differential testing: generated class programs vs a reference model of the documented object model (construction order, dispatch, static overload choice, statics, refcounted destructors)",
             text="Every constructor, field initialiser, method and destructor traces; the complete trace must equal the reference model's. Overload sets over related reference types, base-typed references to derived objects, super calls, bare virtual calls, aliases, destroys, field initialisers that read earlier fields and constructor parameters shadowing fields are generated on purpose. Two further families with their own small models: generic hierarchies (chains of generic / non-generic classes, per-specialisation statics, inherited destructors, diamond inference) and an overload matrix (2-7 overloads of one name over primitive, array and class parameter types spread over a chain with generic levels, overridden once, called with exactly typed arguments directly and through bare / this-qualified relays).",
             note="Objects that die at the same scope exit may be destroyed in any order (traces are compared as sets of per-object chains). Known finding generic-base-args: the analyser ignores the type arguments of an extends clause; the generators stay inside the accepted region and a reproducer is replayed on every run.",
             ref="DESIGN.md §4 C08"),
 "C09": dict(technique="metamorphic property-based testing: alpha-renaming of one local/parameter of one function/method/constructor to a fresh or colliding (capture-free) name must not change stdout/status/diagnostic",
             text="Programs whose methods use bare field names are renamed so that a local of a caller or callee collides with a field or with locals elsewhere; under lexical scoping nothing may change. Half of the cases rename every declared name of the chosen body at once (a composition of capture-free renamings), preferring names of fields that methods update through their bare name and constructor parameters that shadow a field.",
             note="Capture-freedom is guaranteed by construction; destructor order at a shared scope exit is canonicalised (it follows the hash of variable names).",
             ref="DESIGN.md §4 C09"),
 "C11": dict(technique="metamorphic property-based testing over generated collection schedules (hook-controlled: never / every boundary / allocation pressure / drawn bit masks) + ThreadSanitizer runs with the real timer thread",
             text="Allocation-heavy programs (objects held only by pending arguments, receivers, values in flight, constructor argument lists; unreachable cycles) must print the same output and destructor trace under every schedule as under 'never'; TSan must stay silent with the real 50 ms timer and no thread may outlive the evaluator, also after a runtime error. Structures with several reference fields (back links declared before forward links, shared first fields, qubit-owning objects holding plain objects) are walked after forced collections.",
             note="Interleavings of the timer thread are not enumerated; TSan's happens-before analysis on the executed paths is the evidence offered.",
             ref="DESIGN.md §4 C11", engine="hypothesis+verifdrv+tsan_runner"),
 "C12": dict(technique="property-based testing / template fuzzing with sanitizers as oracle: edge-value programs and literal-mutated generated programs through the real CLI of an ASan+UBSan build",
             text="Accepted programs built around arithmetic extremes, bad indices, null references, errors raised inside constructors / initialisers / destructors while objects are live, deep hierarchies with overloaded virtuals and qubit misuse must end with status 0 or with exactly one 'Runtime error' line; signals, sanitizer reports and raw exception texts are violations. Plus dispatch-heavy programs shared with C08 (overload matrix with generic levels, generic hierarchies) and an array boundary family (every element type x holder x load/store x index around the length) whose validity is known in closed form.",
             note="Unbounded recursion (ASan stack-overflow) is out of the property's scope and counted separately; three UBSan sub-checks are off (DESIGN.md 2.3).",
             ref="DESIGN.md §4 C12"),
 "C16": dict(technique="exhaustive enumeration of a rule x position x type-pair matrix (490 violating/repaired snippet pairs in a fixed skeleton, 6 syntactic embeddings each) with a metamorphic pair oracle",
             text="Each cell is backed by a documented rule; the violating program must be rejected with a Semantic diagnostic and its repaired twin accepted, in main, functions, methods, constructors, static methods, subclasses, unrelated classes, field and static initialisers, loop headers and nested blocks.",
             note="Finite matrix run completely in the quick tier; only the diagnostic category is compared; R9 accepts any rejection.",
             ref="DESIGN.md §4 C16"),
 "C17": dict(technique="property-based testing against a reference model: per-shot tracked tables vs the abstract interpreter of the program's measurement history; CLI aggregate table parsed and compared with the sum of per-shot tables (same seeds)",
             text="Loop-scoped and helper-local tracked variables, partly measured registers, reset histories and tracked object fields are generated with shot counts from flag and/or annotation and every --echo mode; counts, totals (N x exits), probabilities (count/total, in [0,1], sum 1), header and echo multiplicity are checked. Measurements also occur directly inside echo arguments (echo(measure q)), which must take effect whether or not echo output is shown.",
             note="CLI shots are seeded through the BLOCH_VERIF_SHOT_SEED hook with the same per-shot seeds as the API run.",
             ref="DESIGN.md §4 C17"),
 "C18": dict(technique="metamorphic property-based testing: an N-shot run in one process must equal N fresh single-shot processes with the same per-shot seeds",
             text="Programs depend on per-run state on purpose (static counters feeding object ids, generic instantiations with statics incl. diamond inference and generic bases, const-sized arrays, objects owning qubits, tracked variables, garbage reference cycles that own a destructor and a tracked qubit); echo, tracked tables, status and QASM are compared shot by shot, also after analysing twice. Half of the cases configure each shot's evaluator exactly as the shot loop of cli.cpp does (QASM log and exit warnings for the last shot only).",
             note="Seeds are the same function of (base seed, shot index) in both arrangements (driver option --shot0); collections are driven by allocation pressure only (no 50 ms timer) in both arrangements so that finalisation order is a function of the program.",
             ref="DESIGN.md §4 C18"),
})
REASONS = {}
def main():
    hooks = subprocess.run(["git","-C","/repo","log","--format=%h %s","--grep=^verif hooks"],capture_output=True,text=True).stdout.strip().splitlines()
    m = {
     "version": 1,
     "setup_cmd": "python3-vt -m pbt.build asan upd fuzz tsan",
     "hooks": {"guard": "BLOCH_VERIF",
               "enable": "pbt/build.py compiles /repo/src/**/*.cpp directly with clang++ -std=gnu++20 -DBLOCH_VERIF plus sanitizers into /verif/.build/<flavour>-<sha256 of tree>/; recomputed at the start of every check",
               "baseline_off_cmd": "/verif/harness/baseline_off.sh /repo",
               "source_commits": [h.split()[0] for h in hooks],
               "add_only": True},
     "engines": [
       {"name": "hypothesis", "path": "/opt/veriftools/pyvenv (python3-vt)", "serves_properties": sorted(CHECKS), "kind_free_text": "property-based testing library (generation, shrinking, stateful mode)"},
       {"name": "verifdrv", "path": "harness/verifdrv.cpp", "serves_properties": sorted(CHECKS), "kind_free_text": "observation-only C++ driver linked against /repo/src built with ASan+UBSan and -DBLOCH_VERIF; one process per case"},
     ],
     "checks": [], "not_applicable": [],
     "notes": "See DESIGN.md. ./check <ID> quick|thorough ; VERIF_SEED selects the Hypothesis seeds; known_findings.json lists fixed/known findings.",
    }
    for pid in ALL:
        if pid in CHECKS:
            c = CHECKS[pid]
            m["checks"].append({
              "property_id": pid, "quick_cmd": f"./check {pid} quick", "thorough_cmd": f"./check {pid} thorough",
              "evidence_file": f"/verif/evidence/{pid}.json", "replay_cmd_template": f"./check {pid} --replay {{path}}",
              "engine": c.get("engine", "hypothesis+verifdrv"),
              "level_claimed": {"category": "exploration", "text": c["text"], "design_ref": c["ref"]},
              "level_note": c["note"], "technique": c["technique"]})
        else:
            m["not_applicable"].append({"property_id": pid, "reason": REASONS.get(pid, "check not built yet in this session (planned, see DESIGN.md §4); no claim is made until it exists")})
    json.dump(m, open(os.path.join(V, "MANIFEST.json"), "w"), indent=1)
if __name__ == "__main__":
    main()
